import UtpVerif.Model.Rtte
import UtpVerif.Gen.Fns
/-!
# C16 — retransmission-timeout estimator stays within bounds

All statements are over *every* sequence of RTT samples (any `Nat` of nanoseconds) and timeout
events, by induction over the event list.
-/
namespace UtpVerif.Props.C16
open UtpVerif.Model UtpVerif.Model.Rtte UtpVerif.Gen

inductive Ev where
  | sample (rtt : Nat)
  | timeout
deriving Repr

def step (s : Rtte) : Ev → Rtte
  | .sample r => s.sample r
  | .timeout => s.onRtoTimeout

def run (evs : List Ev) : Rtte := evs.foldl step Rtte.init

/-- The property text's numbers are the crate's numbers (regenerated constants). -/
theorem constants_pinned :
    RTTE_MIN_RTO = 200 * 1000000 ∧ RTTE_MAX_RTO = 60 * 1000000000 ∧
    CLOCK_GRANULARITY = 10 * 1000000 ∧ RTTE_K = 4 ∧ RTTE_MIN_RTO ≤ RTTE_MAX_RTO ∧
    RTTE_MIN_RTO ≤ RTTE_INITIAL_RTT ∧ RTTE_INITIAL_RTT ≤ RTTE_MAX_RTO := by decide

theorem clamp_bounds (x : Nat) : RTTE_MIN_RTO ≤ clamp x ∧ clamp x ≤ RTTE_MAX_RTO := by
  have h := constants_pinned
  unfold clamp
  split
  · omega
  · split <;> omega

def InBounds (s : Rtte) : Prop := RTTE_MIN_RTO ≤ s.rto ∧ s.rto ≤ RTTE_MAX_RTO

theorem init_inBounds : InBounds Rtte.init := by
  have h := constants_pinned
  simp only [InBounds, Rtte.init, Rtte.rto]; omega

theorem step_inBounds (s : Rtte) (e : Ev) : InBounds (step s e) := by
  cases e <;> cases s <;> simp only [step, Rtte.sample, Rtte.onRtoTimeout, InBounds, Rtte.rto, calcRto]
    <;> exact clamp_bounds _

/-- **RTO is always between 200 ms and 60 s**, after any sequence of samples and timeouts. -/
theorem rto_always_in_bounds (evs : List Ev) :
    200000000 ≤ (run evs).rto ∧ (run evs).rto ≤ 60000000000 := by
  have hc := constants_pinned
  have : ∀ s, InBounds s → InBounds (evs.foldl step s) := by
    induction evs with
    | nil => intro s h; exact h
    | cons e t ih => intro s _; exact ih _ (step_inBounds s e)
  have := this _ init_inBounds
  unfold InBounds run at *
  omega

/-- **After each sample RTO = clamp(SRTT + max(4·RTTVAR, G))**. -/
theorem rto_after_sample (s : Rtte) (r : Nat) :
    ∃ srtt rttvar, s.sample r = .subsequent (clamp (srtt + max (rttvar * 4) 10000000)) srtt rttvar := by
  have hk : RTTE_K = 4 := by decide
  have hg : CLOCK_GRANULARITY = 10000000 := by decide
  cases s with
  | initial rto => exact ⟨r, r / 2, by simp only [Rtte.sample, calcRto, hk, hg]⟩
  | subsequent rto srtt rttvar =>
    exact ⟨(srtt * 7 + r) / 8, rttvar * 3 / 4 + absDiff srtt r / 4, by simp only [Rtte.sample, calcRto, hk, hg]⟩

/-- First sample: SRTT = R, RTTVAR = R/2 (RFC 6298 2.2). -/
theorem first_sample (r : Nat) :
    Rtte.init.sample r = .subsequent (calcRto r (r / 2)) r (r / 2) := rfl

/-- Subsequent samples: RTTVAR ← 3/4·RTTVAR + 1/4·|SRTT − R|, SRTT ← (7·SRTT + R)/8 (RFC 6298 2.3). -/
theorem later_sample (rto srtt rttvar r : Nat) :
    (Rtte.subsequent rto srtt rttvar).sample r =
      .subsequent (calcRto ((srtt * 7 + r) / 8) (rttvar * 3 / 4 + absDiff srtt r / 4))
        ((srtt * 7 + r) / 8) (rttvar * 3 / 4 + absDiff srtt r / 4) := rfl

/-- **A timeout doubles the RTO up to the cap** (for in-bounds states, i.e. all reachable ones). -/
theorem timeout_doubles (s : Rtte) (h : InBounds s) :
    s.onRtoTimeout.rto = min (2 * s.rto) RTTE_MAX_RTO := by
  have hc := constants_pinned
  unfold InBounds at h
  cases s <;> simp only [Rtte.onRtoTimeout, Rtte.rto, clamp] at * <;> (repeat' split) <;> omega

/-- `n` consecutive timeouts with no intervening sample. -/
def timeouts : Nat → Rtte → Rtte
  | 0, s => s
  | n + 1, s => timeouts n s.onRtoTimeout

/-- Consecutive timeouts: `n` timeouts give `min (2^n · rto) max`. -/
theorem timeouts_double (s : Rtte) (h : InBounds s) (n : Nat) :
    (timeouts n s).rto = min (2 ^ n * s.rto) RTTE_MAX_RTO := by
  induction n generalizing s with
  | zero => unfold InBounds at h; simp [timeouts]; omega
  | succ n ih =>
    simp only [timeouts]
    have hb : InBounds s.onRtoTimeout := step_inBounds s .timeout
    rw [ih _ hb, timeout_doubles s h]
    have hc := constants_pinned
    unfold InBounds at h
    rw [Nat.pow_succ]
    rcases Nat.le_total (2 * s.rto) RTTE_MAX_RTO with h1 | h1
    · rw [Nat.min_eq_left h1]; congr 1; rw [Nat.mul_assoc]
    · rw [Nat.min_eq_right h1]
      have h2 : RTTE_MAX_RTO ≤ 2 ^ n * RTTE_MAX_RTO := Nat.le_mul_of_pos_left _ (Nat.pow_pos (by omega))
      have h3 : RTTE_MAX_RTO ≤ 2 ^ n * 2 * s.rto := by
        calc RTTE_MAX_RTO ≤ 2 ^ n * RTTE_MAX_RTO := h2
          _ ≤ 2 ^ n * (2 * s.rto) := Nat.mul_le_mul_left _ h1
          _ = 2 ^ n * 2 * s.rto := by rw [Nat.mul_assoc]
      rw [Nat.min_eq_right h2, Nat.min_eq_right h3]

/-- **The next sample returns to the sample-derived value**: back-off leaves SRTT/RTTVAR untouched,
so `sample` after any number of timeouts gives exactly what it would have given without them. -/
theorem sample_forgets_backoff (s : Rtte) (r : Nat) :
    match s with
    | .initial _ => True
    | .subsequent _ _ _ => s.onRtoTimeout.sample r = s.sample r := by
  cases s <;> simp [Rtte.onRtoTimeout, Rtte.sample]

theorem sample_forgets_backoff_n (rto srtt rttvar r n : Nat) :
    (timeouts n (.subsequent rto srtt rttvar)).sample r =
      (Rtte.subsequent rto srtt rttvar).sample r := by
  induction n generalizing rto with
  | zero => rfl
  | succ n ih => simp only [timeouts, Rtte.onRtoTimeout]; exact ih _

/-- Samples seen in an event list. -/
def samples : List Ev → List Nat
  | [] => []
  | .sample r :: t => r :: samples t
  | .timeout :: t => samples t

theorem samples_append (a b : List Ev) : samples (a ++ b) = samples a ++ samples b := by
  induction a with
  | nil => rfl
  | cons e t ih => cases e <;> simp [samples, ih]

/-- Invariant: `seen` are the samples so far; SRTT is bracketed by them. -/
def SrttInv (seen : List Nat) : Rtte → Prop
  | .initial _ => seen = []
  | .subsequent _ srtt _ =>
      (∃ lo ∈ seen, lo ≤ srtt) ∧ (∃ hi ∈ seen, srtt ≤ hi) ∧
      (∀ lo, (∀ x ∈ seen, lo ≤ x) → lo ≤ srtt) ∧
      (∀ hi, (∀ x ∈ seen, x ≤ hi) → srtt ≤ hi)

theorem srttInv_step (seen : List Nat) (s : Rtte) (e : Ev) (h : SrttInv seen s) :
    SrttInv (seen ++ samples [e]) (step s e) := by
  cases e with
  | timeout =>
    simp only [step, samples, List.append_nil]
    cases s <;> simpa [Rtte.onRtoTimeout, SrttInv] using h
  | sample r =>
    simp only [step, samples]
    cases s with
    | initial rto =>
      simp only [SrttInv] at h
      subst h
      simp only [Rtte.sample, SrttInv, List.nil_append, List.mem_singleton]
      exact ⟨⟨r, rfl, Nat.le_refl _⟩, ⟨r, rfl, Nat.le_refl _⟩, fun lo hl => hl r rfl, fun hi hh => hh r rfl⟩
    | subsequent rto srtt rttvar =>
      simp only [Rtte.sample, SrttInv] at *
      obtain ⟨⟨lo, hlo, hlo'⟩, ⟨hi, hhi, hhi'⟩, hmin, hmax⟩ := h
      refine ⟨?_, ?_, ?_, ?_⟩
      · rcases Nat.le_total srtt r with h1 | h1
        · exact ⟨lo, List.mem_append_left _ hlo, by omega⟩
        · exact ⟨r, List.mem_append_right _ (List.mem_singleton.mpr rfl), by omega⟩
      · rcases Nat.le_total srtt r with h1 | h1
        · exact ⟨r, List.mem_append_right _ (List.mem_singleton.mpr rfl), by omega⟩
        · exact ⟨hi, List.mem_append_left _ hhi, by omega⟩
      · intro b hb
        have h1 := hmin b (fun x hx => hb x (List.mem_append_left _ hx))
        have h2 := hb r (List.mem_append_right _ (List.mem_singleton.mpr rfl))
        omega
      · intro b hb
        have h1 := hmax b (fun x hx => hb x (List.mem_append_left _ hx))
        have h2 := hb r (List.mem_append_right _ (List.mem_singleton.mpr rfl))
        omega

/-- **SRTT always lies between the smallest and largest sample seen** (once there is a sample),
after every sequence of samples and timeouts. -/
theorem srtt_between_samples (evs : List Ev) : SrttInv (samples evs) (run evs) := by
  have : ∀ seen s, SrttInv seen s → SrttInv (seen ++ samples evs) (evs.foldl step s) := by
    induction evs with
    | nil => intro seen s h; simpa [samples] using h
    | cons e t ih =>
      intro seen s h
      have := ih _ _ (srttInv_step seen s e h)
      rw [List.append_assoc, ← samples_append] at this
      exact this
  simpa [run] using this [] Rtte.init (by simp [SrttInv, Rtte.init])

-- Non-vacuity / sanity: a concrete history.
example : (run [.sample 50000000, .timeout, .timeout]).rto = 800000000 := by decide
example : (run [.sample 50000000, .timeout, .sample 50000000]).rto = 200000000 := by decide
example : (run [.sample 0]).rto = 200000000 ∧ (run [.sample 100000000000000]).rto = 60000000000 := by decide

/-! ### The RTO stays tied to the round trips actually measured (RTTVAR bound) -/

/-- `clamp` is monotone. -/
theorem clamp_mono (a b : Nat) (h : a ≤ b) : clamp a ≤ clamp b := by
  have hc := constants_pinned
  unfold clamp
  repeat' split
  all_goals omega

/-- Invariant: SRTT and RTTVAR never exceed any upper bound of the samples seen. -/
def VarInv (seen : List Nat) : Rtte → Prop
  | .initial _ => True
  | .subsequent _ srtt rttvar => ∀ hi, (∀ x ∈ seen, x ≤ hi) → srtt ≤ hi ∧ rttvar ≤ hi

theorem varInv_step (seen : List Nat) (s : Rtte) (e : Ev) (h : VarInv seen s) :
    VarInv (seen ++ samples [e]) (step s e) := by
  cases e with
  | timeout =>
    simp only [step, samples, List.append_nil]
    cases s <;> simp_all [Rtte.onRtoTimeout, VarInv]
  | sample r =>
    simp only [step, samples]
    cases s with
    | initial rto =>
      simp only [Rtte.sample, VarInv]
      intro hi hh
      have := hh r (List.mem_append_right _ (List.mem_singleton.mpr rfl))
      omega
    | subsequent rto srtt rttvar =>
      simp only [Rtte.sample, VarInv] at *
      intro hi hh
      have h1 := h hi (fun x hx => hh x (List.mem_append_left _ hx))
      have h2 := hh r (List.mem_append_right _ (List.mem_singleton.mpr rfl))
      unfold absDiff
      split <;> omega

theorem var_bounded_by_samples (evs : List Ev) : VarInv (samples evs) (run evs) := by
  have : ∀ seen s, VarInv seen s → VarInv (seen ++ samples evs) (evs.foldl step s) := by
    induction evs with
    | nil => intro seen s h; simpa [samples] using h
    | cons e t ih =>
      intro seen s h
      have := ih _ _ (varInv_step seen s e h)
      rw [List.append_assoc, ← samples_append] at this
      exact this
  simpa [run] using this [] Rtte.init (by simp [VarInv, Rtte.init])

/-- **Right after a sample the RTO is bracketed by the samples seen**: for every history of samples and timeouts
ending in a sample, if every sample seen lies in `[lo, hi]` then
`clamp lo ≤ RTO ≤ clamp (hi + max (4·hi) G)`: never below the smallest round trip measured (a timer shorter than
the path's round trip would fire spuriously on every packet), never above five times the largest (plus the clamp
to [200 ms, 60 s]), whatever back-off happened in between. -/
theorem rto_bracketed_by_samples (evs : List Ev) (r lo hi : Nat)
    (hlo : ∀ x ∈ samples evs ++ [r], lo ≤ x) (hhi : ∀ x ∈ samples evs ++ [r], x ≤ hi) :
    clamp lo ≤ (run (evs ++ [.sample r])).rto ∧
    (run (evs ++ [.sample r])).rto ≤ clamp (hi + max (hi * RTTE_K) CLOCK_GRANULARITY) := by
  have hs := srtt_between_samples (evs ++ [.sample r])
  have hv := var_bounded_by_samples (evs ++ [.sample r])
  have hsm : samples (evs ++ [Ev.sample r]) = samples evs ++ [r] := by rw [samples_append]; rfl
  rw [hsm] at hs hv
  have hrun : run (evs ++ [.sample r]) = (run evs).sample r := by simp [run, step]
  obtain ⟨srtt, rttvar, he⟩ : ∃ srtt rttvar, (run evs).sample r = .subsequent (calcRto srtt rttvar) srtt rttvar := by
    cases run evs <;> exact ⟨_, _, rfl⟩
  rw [hrun, he] at hs hv ⊢
  simp only [SrttInv, VarInv, Rtte.rto] at *
  have h1 := hs.2.2.1 lo hlo
  have h2 := hv hi hhi
  unfold calcRto
  constructor
  · apply clamp_mono; omega
  · apply clamp_mono
    have : rttvar * RTTE_K ≤ hi * RTTE_K := Nat.mul_le_mul_right _ h2.2
    omega

-- Non-vacuity: histories with back-off between the samples.
example : (run ([.sample 50000000, .timeout] ++ [.sample 70000000])).rto = 200000000 := by decide
example : (run ([.sample 1000000000, .timeout] ++ [.sample 3000000000])).rto = 4750000000 := by decide

/-! ### Steady path -/

/-- `n` further samples of the same value. -/
def steady (r : Nat) : Nat → Rtte → Rtte
  | 0, s => s
  | n + 1, s => steady r n (s.sample r)

/-- RTTVAR after `n` decays of 3/4 (integer floor, as the code computes it). -/
def decay : Nat → Nat → Nat
  | 0, v => v
  | n + 1, v => decay n (v * 3 / 4)

theorem decay_le (n v : Nat) : decay n v * 4 ^ n ≤ v * 3 ^ n := by
  induction n generalizing v with
  | zero => simp [decay]
  | succ n ih =>
    simp only [decay]
    have h := ih (v * 3 / 4)
    have h4 : v * 3 / 4 * 4 ≤ v * 3 := Nat.div_mul_le_self _ _
    calc decay n (v * 3 / 4) * 4 ^ (n + 1) = decay n (v * 3 / 4) * 4 ^ n * 4 := by rw [Nat.pow_succ, Nat.mul_assoc]
      _ ≤ (v * 3 / 4) * 3 ^ n * 4 := Nat.mul_le_mul_right _ h
      _ = (v * 3 / 4 * 4) * 3 ^ n := by rw [Nat.mul_assoc, Nat.mul_comm (3 ^ n) 4, ← Nat.mul_assoc]
      _ ≤ (v * 3) * 3 ^ n := Nat.mul_le_mul_right _ h4
      _ = v * 3 ^ (n + 1) := by rw [Nat.pow_succ, Nat.mul_assoc, Nat.mul_comm 3 (3 ^ n)]

/-- **On a steady path the estimator settles**: after a first sample `r`, `n` further samples of the same `r`
(with any timeouts' back-off forgotten by `sample_forgets_backoff`) leave SRTT = `r` exactly, RTTVAR = `r/2` decayed
`n` times by 3/4 - at most `(r/2)·(3/4)^n` - and RTO = clamp(r + max(4·RTTVAR, G)): the timer comes back down to
the measured round trip instead of staying inflated. -/
theorem steady_path_settles (r n rto v : Nat) :
    steady r (n + 1) (.subsequent rto r v) =
      .subsequent (calcRto r (decay (n + 1) v)) r (decay (n + 1) v) ∧
    decay (n + 1) v * 4 ^ (n + 1) ≤ v * 3 ^ (n + 1) := by
  refine ⟨?_, decay_le _ _⟩
  induction n generalizing rto v with
  | zero =>
    simp only [steady, Rtte.sample, decay, absDiff]
    have e : (r * 7 + r) / 8 = r := by omega
    simp [e]
  | succ n ih =>
    have e : (r * 7 + r) / 8 = r := by omega
    have hs : (Rtte.subsequent rto r v).sample r = .subsequent (calcRto r (v * 3 / 4)) r (v * 3 / 4) := by
      simp [Rtte.sample, absDiff, e]
    rw [steady, hs, ih]
    simp only [decay]

-- Non-vacuity: 100 ms path, ten equal samples: the RTO is down at the 200 ms floor.
example : (steady 100000000 9 (Rtte.init.sample 100000000)).rto = 200000000 := by decide

/-! ### Tie 1b: the hand-written model of this function equals the definition regenerated from the Rust source

`UtpVerif.Gen.Fns` is rewritten by `tools/translate_fns.py` from /repo's current source on every run; the theorems
of this file are about the model definition, and the equality below re-attaches them to what the code says now. -/

theorem generated_clamp (r : Nat) : UtpVerif.Gen.Fns.rtoClamp r = Rtte.clamp r := rfl
theorem generated_calc_rto (s v : Nat) : UtpVerif.Gen.Fns.calcRto s v = Rtte.calcRto s v := rfl
theorem generated_abs_diff (a b : Nat) : UtpVerif.Gen.Fns.durationAbsDiff a b = Rtte.absDiff a b := rfl
/-- The two assignments of `RttEstimator::sample` (Subsequent arm), as written in the source, are the model's step. -/
theorem generated_sample_update (rto srtt rttvar r : Nat) :
    Rtte.sample (.subsequent rto srtt rttvar) r =
      .subsequent (UtpVerif.Gen.Fns.calcRto (UtpVerif.Gen.Fns.srttUpdate srtt r) (UtpVerif.Gen.Fns.rttvarUpdate rttvar srtt r))
        (UtpVerif.Gen.Fns.srttUpdate srtt r) (UtpVerif.Gen.Fns.rttvarUpdate rttvar srtt r) := rfl

end UtpVerif.Props.C16
