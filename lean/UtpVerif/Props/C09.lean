import UtpVerif.Model.SeqNr
import UtpVerif.Gen.Fns
/-!
# C09 — behaviour invariant under initial sequence numbers (16-bit wrap safety)

Arithmetic part: for *all* pairs of 16-bit values (no enumeration: `omega`).
The relabelling part for components is in `Props/C09Shift.lean` (later layers).
-/
namespace UtpVerif.Props.C09
open UtpVerif.Model UtpVerif.Gen

/-- The specification distance is what it says: congruent to `a - b` mod 2^16 and in `(-32768, 32768]`. -/
theorem modDist_spec (a b : Nat) (ha : a < 65536) (_hb : b < 65536) :
    -32768 < modDist a b ∧ modDist a b ≤ 32768 ∧
    (modDist a b - ((a : Int) - b)) % 65536 = 0 := by
  unfold modDist wsub
  simp only
  split <;> omega

/-- **Distance agrees with true modular distance** whenever that distance is within the tolerance
(any tolerance up to 32767). All 2^32 pairs at once. -/
theorem seqOffset_eq_modDist (a b tol : Nat) (ha : a < 65536) (hb : b < 65536)
    (htol : tol ≤ 32767) (hd : (modDist a b).natAbs ≤ tol) :
    seqOffset a b tol = modDist a b := by
  unfold seqOffset modDist wsub at *
  simp only at *
  split at hd <;> (repeat' split) <;> omega

/-- Outside the tolerance the function returns the *plain* (non-modular) difference: this is
the ISN-dependent regime. -/
theorem seqOffset_outside (a b tol : Nat) (ha : a < 65536) (hb : b < 65536)
    (htol : tol ≤ 32767) (hd : tol < (modDist a b).natAbs) :
    seqOffset a b tol = (a : Int) - b := by
  unfold seqOffset modDist wsub at *
  simp only at *
  split at hd <;> (repeat' split) <;> omega

/-- **Ordering agrees with the sign of the true modular distance** within tolerance. -/
theorem order_agrees (a b tol : Nat) (ha : a < 65536) (hb : b < 65536)
    (htol : tol ≤ 32767) (hd : (modDist a b).natAbs ≤ tol) :
    (seqOffset a b tol < 0 ↔ modDist a b < 0) ∧
    (seqOffset a b tol = 0 ↔ a = b) ∧
    (seqOffset a b tol > 0 ↔ modDist a b > 0) := by
  have h := seqOffset_eq_modDist a b tol ha hb htol hd
  rw [h]
  refine ⟨Iff.rfl, ?_, Iff.rfl⟩
  unfold modDist wsub
  simp only
  split <;> omega

/-- **Shift (relabelling) lemma**: adding the same `k` to both 16-bit numbers (with wrap) does not
change the offset, whenever the true distance is within tolerance. This is what makes a run
started near 65535 equal to the run started at a small number with every number shifted. -/
theorem seqOffset_shift (a b k tol : Nat) (ha : a < 65536) (hb : b < 65536)
    (htol : tol ≤ 32767) (hd : (modDist a b).natAbs ≤ tol) :
    seqOffset (wadd a k) (wadd b k) tol = seqOffset a b tol := by
  have hk : modDist (wadd a k) (wadd b k) = modDist a b := by
    unfold modDist wsub wadd; simp only; (repeat' split) <;> omega
  have ha' : wadd a k < 65536 := by unfold wadd; omega
  have hb' : wadd b k < 65536 := by unfold wadd; omega
  rw [seqOffset_eq_modDist _ _ tol ha' hb' htol (by rw [hk]; exact hd),
      seqOffset_eq_modDist _ _ tol ha hb htol hd, hk]

/-- Antisymmetry within tolerance (used by `Ord` consumers: `a < b ↔ b > a`). -/
theorem seqOffset_antisymm (a b tol : Nat) (ha : a < 65536) (hb : b < 65536)
    (htol : tol ≤ 32767) (hd : (modDist a b).natAbs ≤ tol) :
    seqOffset b a tol = - seqOffset a b tol := by
  have hba : (modDist b a).natAbs ≤ tol := by
    unfold modDist wsub at *; simp only at *; (repeat' split at hd) <;> (repeat' split) <;> omega
  rw [seqOffset_eq_modDist _ _ tol hb ha htol hba, seqOffset_eq_modDist _ _ tol ha hb htol hd]
  unfold modDist wsub at *; simp only at *; (repeat' split at hd) <;> (repeat' split) <;> omega

/-- The reassembly-queue capacity (in sequence numbers) of a configuration: `rx_buf / mss₀`
(`UserRx::build`), where `mss₀` is the initial segment size for the address family. -/
def ooqCapacity (rxBuf mss0 : Nat) : Nat := if rxBuf / mss0 = 0 then 64 else rxBuf / mss0

def defaultMssV4 : Nat := min MIN_MTU_V4 DEFAULT_LINK_MTU - IPV4_HEADER - UDP_HEADER - UTP_HEADER
def defaultMssV6 : Nat := min MIN_MTU_V6 DEFAULT_LINK_MTU - IPV6_HEADER - UDP_HEADER - UTP_HEADER

/-- **Side condition that ties the arithmetic to the property text** ("for every distance the
configured windows allow"): with the crate's `WRAP_TOLERANCE`, the default configuration's
receive window (in packets, both address families) fits inside the tolerance, so every distance
a window-respecting peer can produce is computed as true modular distance.  This is the
obligation that fails for `WRAP_TOLERANCE = 1024` (1 MiB / 528 = 1985 > 1024). -/
theorem default_windows_within_tolerance :
    WRAP_TOLERANCE ≤ 32767 ∧
    ooqCapacity RX_BUF_SIZE_PER_VSOCK_DEFAULT defaultMssV4 ≤ WRAP_TOLERANCE ∧
    ooqCapacity RX_BUF_SIZE_PER_VSOCK_DEFAULT defaultMssV6 ≤ WRAP_TOLERANCE := by
  decide

/-- **The same side condition for the sending side (D25).** The sender measures `last_sent_seq_nr − snd_una`, the
offsets of its segments and its FIN's number against `snd_una`: distances up to the number of queued segments + 1.
Since D25 the segmentation loop stops at `MAX_TX_SEGMENTS` (`C10Inv.segmentLoop_len_bound`); this is the obligation
that ties that cap to the tolerance. Before D25 no such constant existed: the buffer size in *bytes* was the only
bound, and one-byte segments (Nagle off) took the queue past 32767. -/
theorem tx_queue_cap_within_tolerance : MAX_TX_SEGMENTS + 1 ≤ WRAP_TOLERANCE := by decide

/-- The crate's `SeqNr - SeqNr` is true modular distance for every distance up to the crate
tolerance (corollary, pinned to the regenerated constant). -/
theorem seqSub_eq_modDist (a b : Nat) (ha : a < 65536) (hb : b < 65536)
    (hd : (modDist a b).natAbs ≤ WRAP_TOLERANCE) : seqSub a b = modDist a b :=
  seqOffset_eq_modDist a b _ ha hb default_windows_within_tolerance.1 hd

/-- The crate's `Ord for SeqNr` agrees with modular order for every distance a window allows. -/
theorem seqOrd_agrees (a b : Nat) (ha : a < 65536) (hb : b < 65536)
    (hd : (modDist a b).natAbs ≤ WRAP_TOLERANCE) :
    (seqLt a b = true ↔ modDist a b < 0) ∧ (seqGt a b = true ↔ modDist a b > 0) := by
  have h := order_agrees a b _ ha hb default_windows_within_tolerance.1 hd
  unfold seqLt seqGt seqSub
  simp only [decide_eq_true_eq]
  exact ⟨h.1, h.2.2⟩

/-- **Distances add up (triangle equality)**: for three 16-bit numbers whose pairwise true distances stay within
half the tolerance budget, `a − c = (a − b) + (b − c)`. Consumers compare three numbers at once (`ack_nr`,
`snd_una`, `last_sent_seq_nr`; the receive offset against `ack_nr` and the queue capacity): this is what lets the
invariants of `C10Inv` be carried as plain integers. All 2^48 triples at once. -/
theorem seqOffset_add (a b c tol : Nat) (ha : a < 65536) (hb : b < 65536) (hc : c < 65536)
    (htol : tol ≤ 32767) (h1 : 2 * (modDist a b).natAbs ≤ tol) (h2 : 2 * (modDist b c).natAbs ≤ tol) :
    seqOffset a c tol = seqOffset a b tol + seqOffset b c tol := by
  have hac : (modDist a c).natAbs ≤ tol ∧ modDist a c = modDist a b + modDist b c := by
    unfold modDist wsub at *; simp only at *
    (repeat' split at h1) <;> (repeat' split at h2) <;> (repeat' split) <;> omega
  rw [seqOffset_eq_modDist a c tol ha hc htol hac.1, seqOffset_eq_modDist a b tol ha hb htol (by omega),
      seqOffset_eq_modDist b c tol hb hc htol (by omega), hac.2]

/-- **The crate's `Ord for SeqNr` is transitive inside a window**: `a < b` and `b < c` give `a < c` whenever both
distances are at most half the crate tolerance (16383 numbers: above the default receive window of 1985 packets,
and `a < c` is then itself a distance within the tolerance). Outside a window a cyclic order cannot be transitive
(`seqLt_not_transitive_across_half`). -/
theorem seqLt_trans (a b c : Nat) (ha : a < 65536) (hb : b < 65536) (hc : c < 65536)
    (h1 : 2 * (modDist a b).natAbs ≤ WRAP_TOLERANCE) (h2 : 2 * (modDist b c).natAbs ≤ WRAP_TOLERANCE)
    (hab : seqLt a b = true) (hbc : seqLt b c = true) : seqLt a c = true := by
  have h := seqOffset_add a b c WRAP_TOLERANCE ha hb hc default_windows_within_tolerance.1 h1 h2
  unfold seqLt seqSub at *
  simp only [decide_eq_true_eq] at *
  omega

/-- **Trichotomy inside a window**: exactly one of `a < b`, `a = b`, `a > b` holds, and `a < b ↔ b > a`. Together
with `seqLt_trans` the crate's comparison is a strict total order on every window-sized set of numbers. -/
theorem seqOrd_trichotomy (a b : Nat) (ha : a < 65536) (hb : b < 65536)
    (hd : (modDist a b).natAbs ≤ WRAP_TOLERANCE) :
    ((seqLt a b = true ∧ a ≠ b ∧ seqGt a b = false) ∨ (seqLt a b = false ∧ a = b ∧ seqGt a b = false) ∨
     (seqLt a b = false ∧ a ≠ b ∧ seqGt a b = true)) ∧ (seqLt a b = seqGt b a) := by
  have h := order_agrees a b _ ha hb default_windows_within_tolerance.1 hd
  have hs := seqOffset_antisymm a b _ ha hb default_windows_within_tolerance.1 hd
  unfold seqLt seqGt seqSub
  have e : seqOffset a b WRAP_TOLERANCE = 0 ↔ a = b := h.2.1
  refine ⟨?_, ?_⟩
  · by_cases hlt : seqOffset a b WRAP_TOLERANCE < 0
    · left; refine ⟨by simpa using hlt, ?_, by simp; omega⟩
      intro hab; have := e.mpr hab; omega
    · by_cases heq : seqOffset a b WRAP_TOLERANCE = 0
      · right; left; exact ⟨by simp; omega, e.mp heq, by simp; omega⟩
      · right; right; refine ⟨by simp; omega, ?_, by simp; omega⟩
        intro hab; exact heq (e.mpr hab)
  · rw [hs]; simp only [decide_eq_decide]; omega

/-- A cyclic 16-bit order cannot be transitive across half the ring: the window hypothesis of `seqLt_trans` is
needed, not an artefact (witness under the crate's tolerance). -/
theorem seqLt_not_transitive_across_half :
    seqLt 0 20000 = true ∧ seqLt 20000 40000 = true ∧ seqLt 40000 0 = true := by decide

-- Non-vacuity of the window hypotheses on a wrap-crossing triple.
example : 2 * (modDist 65530 3).natAbs ≤ WRAP_TOLERANCE ∧ 2 * (modDist 3 40).natAbs ≤ WRAP_TOLERANCE ∧
    seqLt 65530 3 = true ∧ seqLt 3 40 = true ∧ seqLt 65530 40 = true := by decide

-- Non-vacuity: hypotheses are satisfiable on a wrap-crossing pair.
example : seqOffset 3 65530 1024 = 9 ∧ modDist 3 65530 = 9 ∧ (modDist 3 65530).natAbs ≤ 1024 := by decide
example : seqOffset (wadd 65530 10) (wadd 65520 10) 1024 = seqOffset 65530 65520 1024 := by decide

/-- Witness of the ISN-dependent regime (the D3 finding): a packet 1500 ahead is "+1500" when the
numbers do not wrap and "-64036" when they do, under tolerance 1024. Kept as a regression fact
about the *function*; `default_windows_within_tolerance` is what rules it out for the crate. -/
theorem isn_dependent_beyond_tolerance :
    seqOffset 1501 1 1024 = 1500 ∧ seqOffset 964 65000 1024 = -64036 := by decide

/-! ### Tie 1b: the hand-written model of this function equals the definition regenerated from the Rust source

`UtpVerif.Gen.Fns` is rewritten by `tools/translate_fns.py` from /repo's current source on every run; the theorems
of this file are about the model definition, and the equality below re-attaches them to what the code says now. -/

theorem generated_seq_nr_offset (new old tol : Nat) :
    UtpVerif.Gen.Fns.seqNrOffset new old tol = seqOffset new old tol := by
  unfold UtpVerif.Gen.Fns.seqNrOffset seqOffset wsub
  rfl

end UtpVerif.Props.C09
