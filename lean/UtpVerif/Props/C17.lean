import UtpVerif.Model.VSock
import UtpVerif.Lemmas.Segments
import UtpVerif.Props.C10Inv
/-!
# C17 — handshake and teardown follow the uTP state machine on the wire
-/
namespace UtpVerif.Props.C17
open UtpVerif.Model UtpVerif.Model.VSock UtpVerif.Gen UtpVerif.Lemmas.Segments UtpVerif.Model.Segments

theorem constants_pinned : SYNACK_RESEND_INTERNAL = 200 * 1000000 ∧ TYPE_ST_FIN = 1 ∧ TYPE_ST_STATE = 2 ∧
    TYPE_ST_RESET = 3 ∧ TYPE_ST_SYN = 4 ∧ TYPE_ST_DATA = 0 := by decide

/-- **Closing on its own initiative**: the FIN takes the sequence number following the last queued data segment
(`snd_una + len`; `poll` calls this only when every queued segment has been transmitted and nothing is
unsegmented), and the counter moves past it. Until D26 this theorem said "the FIN takes `seq_nr`", which is what the
code did and NOT the number after the last segment while segments are being re-sent after an RTO. -/
theorem transition_assigns_next_seq (v : VSock) (h : v.state = .established ∨ v.state = .synReceived ∨ ∃ n, v.state = .synAckSent n) :
    v.transitionToFinWait1.state = .finWait1 (wadd v.segs.sndUna (v.segs.segs.length % 65536)) ∧
    v.transitionToFinWait1.seqNr = wadd (wadd v.segs.sndUna (v.segs.segs.length % 65536)) 1 ∧
    v.transitionToFinWait1.segs = v.segs := by
  unfold transitionToFinWait1
  rcases h with h | h | ⟨n, h⟩ <;> simp [h]

/-- In every other state the transition does nothing (no second FIN number is ever assigned). -/
theorem transition_idempotent (v : VSock) (h : v.state.isLocalFinOrLater = true) : v.transitionToFinWait1 = v := by
  unfold transitionToFinWait1
  cases hs : v.state <;> simp [hs, VState.isLocalFinOrLater] at h ⊢

/-- What a successful `send_control_packet` did. -/
theorem sendControlPacket_sent (v : VSock) (c : Ctx) (h : Header) (v' : VSock) (c' : Ctx)
    (hs : v.sendControlPacket c h = .ok (v', c', true)) :
    ∃ bytes, h.serialize (v.ss.maxSs + UTP_HEADER) = some bytes ∧ c'.out = c.out ++ [bytes] ∧ v' = v.onPacketSent h := by
  unfold sendControlPacket at hs
  by_cases hp : v.transportPending = true
  · simp [hp, pure, Except.pure] at hs
  · rw [if_neg hp] at hs
    cases hser : h.serialize (v.ss.maxSs + UTP_HEADER) with
    | none => rw [hser] at hs; simp [throw, throwThe, MonadExceptOf.throw] at hs
    | some bytes =>
      rw [hser] at hs
      simp only [transportSend] at hs
      cases ho : c.transport.outcome c.sends bytes.length with
      | sent =>
        simp only [ho, pure, Except.pure, Except.ok.injEq, Prod.mk.injEq] at hs
        obtain ⟨rfl, rfl, _⟩ := hs
        exact ⟨bytes, rfl, rfl, rfl⟩
      | pending => simp [ho, pure, Except.pure] at hs
      | emsgsize => simp [ho, throw, throwThe, MonadExceptOf.throw] at hs
      | error => simp [ho, throw, throwThe, MonadExceptOf.throw] at hs

/-- **The FIN is emitted only when every earlier sequence number has been transmitted**
(`fin − last_sent_seq_nr = 1`), it is an ST_FIN carrying exactly the FIN's number, and on success the
retransmission timer is armed and `last_sent_seq_nr` becomes the FIN's number. -/
theorem maybeSendFin_spec (v : VSock) (c : Ctx) (v' : VSock) (c' : Ctx)
    (h : v.maybeSendFin c = .ok (v', c', true)) :
    ∃ fin, v.state.ourFinIfUnacked = some fin ∧ seqSub fin v.lastSentSeqNr = 1 ∧ v'.lastSentSeqNr = fin ∧
      v'.timers.retransmit.isSome ∧
      ∃ bytes, c'.out = c.out ++ [bytes] ∧
        ({ v.outgoingHeader with htype := TYPE_ST_FIN, seqNr := fin } : Header).serialize (v.ss.maxSs + UTP_HEADER) = some bytes := by
  unfold maybeSendFin at h
  by_cases hp : v.transportPending = true
  · simp [hp, pure, Except.pure] at h
  · rw [if_neg hp] at h
    cases hfin : v.state.ourFinIfUnacked with
    | none => rw [hfin] at h; simp [pure, Except.pure] at h
    | some fin =>
      rw [hfin] at h
      simp only at h
      by_cases hgap : seqSub fin v.lastSentSeqNr = 1
      · have hng : ¬ (seqSub fin v.lastSentSeqNr ≠ 1) := by simp [hgap]
        simp only [hng, if_false] at h
        generalize hsc : v.sendControlPacket c { v.outgoingHeader with htype := TYPE_ST_FIN, seqNr := fin } = res at h
        cases res with
        | error e => simp [throw, throwThe, MonadExceptOf.throw] at h
        | ok r =>
          obtain ⟨v1, c1, sent⟩ := r
          cases sent with
          | false => simp [pure, Except.pure] at h
          | true =>
            simp only [if_true, pure, Except.pure, Except.ok.injEq, Prod.mk.injEq] at h
            obtain ⟨rfl, rfl, _⟩ := h
            obtain ⟨bytes, hser, hout, _⟩ := sendControlPacket_sent v c _ v1 c1 hsc
            refine ⟨fin, rfl, hgap, rfl, ?_, bytes, hout, hser⟩
            simp only [Timer.arm]; cases v1.timers.retransmit <;> simp
      · simp [hgap, pure, Except.pure] at h

/-- **A RESET aborts at once, with an error, and without a reply** — unless the close handshake was
already answered (`LastAck` and the RESET acknowledges our FIN), in which case the connection simply
ends. Either way the state is `Closed` and no datagram is emitted while processing it. -/
theorem reset_aborts (v : VSock) (c : Ctx) (msg : Msg) (hty : msg.h.htype = TYPE_ST_RESET) :
    (∃ f, v.processIncomingMessage c msg = .error f ∧ f.e = .stResetReceived ∧ f.v.state = .closed ∧ f.c = c) ∨
    (∃ v', v.processIncomingMessage c msg = .ok (v', c, {}) ∧ v'.state = .closed ∧
       ∃ ourFin rf, v.state = .lastAck ourFin rf ∧ msg.h.ackNr = ourFin) := by
  unfold processIncomingMessage stateGate
  cases hs : v.state with
  | lastAck ourFin rf =>
    by_cases ha : msg.h.ackNr = ourFin
    · right; simp only [hty, if_true, ha, pure, Except.pure]
      exact ⟨_, rfl, rfl, ourFin, rf, rfl, rfl⟩
    · left; simp only [hty, if_true, ha, if_false, throw, throwThe, MonadExceptOf.throw]
      exact ⟨_, rfl, rfl, rfl, rfl⟩
  | _ =>
    left; simp only [hty, if_true, throw, throwThe, MonadExceptOf.throw]
    exact ⟨_, rfl, rfl, rfl, rfl⟩

/-- A SYN on an existing connection is ignored (no state change, no output). -/
theorem syn_ignored (v : VSock) (c : Ctx) (msg : Msg) (hty : msg.h.htype = TYPE_ST_SYN) :
    v.processIncomingMessage c msg = .ok (v, c, {}) := by
  have hne : ¬ (TYPE_ST_SYN = TYPE_ST_RESET) := by decide
  unfold processIncomingMessage stateGate
  cases hs : v.state <;> simp [hty, hne, pure, Except.pure]

/-- **A peer's FIN is honoured only in sequence**: in `Established`, `FinWait1`, `FinWait2` a FIN whose
sequence number is not `last consumed + 1` is dropped without any state change. -/
theorem out_of_sequence_fin_dropped (v : VSock) (hdr : Header) (hty : hdr.htype = TYPE_ST_FIN)
    (hst : v.state = .established ∨ (∃ f, v.state = .finWait1 f) ∨ v.state = .finWait2)
    (hseq : hdr.seqNr ≠ wadd v.lastConsumedRemoteSeqNr 1) :
    ∃ v', v.stateGate hdr = .dropPacket v' ∧ v' = v := by
  have h1 : ¬ (TYPE_ST_FIN = TYPE_ST_RESET) := by decide
  have h2 : ¬ (TYPE_ST_FIN = TYPE_ST_SYN) := by decide
  unfold stateGate
  rcases hst with h | ⟨f, h⟩ | h <;> simp [h, hty, h1, h2, hseq]

/-- **In-sequence FIN in `Established`**: the endpoint moves to `LastAck`, scheduling its own FIN with the number
that follows the last segment that stays queued (`snd_una + len` after the never-sent tail was discarded). -/
theorem in_sequence_fin_answered (v : VSock) (hdr : Header) (hty : hdr.htype = TYPE_ST_FIN)
    (hst : v.state = .established) (hseq : hdr.seqNr = wadd v.lastConsumedRemoteSeqNr 1) :
    ∃ v' fin, v.stateGate hdr = .proceed v' ∧ v'.state = .lastAck fin hdr.seqNr ∧ v'.seqNr = wadd fin 1 ∧
      v'.segs = v.segs.discardUnsent ∧ fin = wadd v'.segs.sndUna (v'.segs.segs.length % 65536) := by
  have h1 : ¬ (TYPE_ST_FIN = TYPE_ST_RESET) := by decide
  have h2 : ¬ (TYPE_ST_FIN = TYPE_ST_SYN) := by decide
  unfold stateGate
  simp [hst, hty, h1, h2, hseq]

/-- **The answering FIN can always be sent (D24).** Its number is exactly one past the last queued segment, so as
soon as `last_sent_seq_nr` stands on that segment (`snd_una + len - 1`: everything queued is on the wire, or the
queue is empty) `maybe_send_fin`'s guard `fin - last_sent_seq_nr = 1` holds. Before the D24 repair the FIN was
numbered from `seq_nr`, which a popped MTU probe leaves one further ahead: the guard was then never true. -/
theorem answering_fin_is_sendable (una len ls : Nat) (hu : una < 65536) (hlen : len ≤ 16384)
    (hls : ls < 65536) (hat : seqSub ls una = (len : Int) - 1) :
    seqSub (wadd una (len % 65536)) ls = 1 := by
  open UtpVerif.Props.C10Inv in
  have e1 : ls = off una ((len : Int) - 1) := by rw [← hat]; exact eq_off_of_seqSub ls una hls hu
  open UtpVerif.Props.C10Inv in
  have e2 : wadd una (len % 65536) = off ls 1 := by
    rw [e1, off_off]
    have : ((len : Int) - 1 + 1) = ((len : Nat) : Int) := by omega
    rw [this, off_nat]
    unfold wadd; omega
  open UtpVerif.Props.C10Inv in
  rw [e2]; exact seqSub_off ls 1 hls (by omega)

/-- **Leaving `SynAckSent`**: only a DATA/STATE acknowledging `seq_nr − 1` establishes the connection;
any other acknowledgement number is ignored; a FIN closes. -/
theorem synack_sent_exits (v : VSock) (hdr : Header) (n : Nat) (hst : v.state = .synAckSent n)
    (hty : hdr.htype = TYPE_ST_DATA ∨ hdr.htype = TYPE_ST_STATE) :
    (hdr.ackNr = wsub v.seqNr 1 → ∃ v', v.stateGate hdr = .proceed v' ∧ v'.state = .established) ∧
    (hdr.ackNr ≠ wsub v.seqNr 1 → v.stateGate hdr = .dropPacket v) := by
  have e : TYPE_ST_DATA = 0 ∧ TYPE_ST_STATE = 2 ∧ TYPE_ST_RESET = 3 ∧ TYPE_ST_SYN = 4 := by decide
  unfold stateGate
  constructor
  · intro ha
    rcases hty with h | h <;> simp only [hst, h, e.1, e.2.1, e.2.2.1, e.2.2.2] <;> simp [ha] <;> exact ⟨_, rfl, rfl⟩
  · intro ha
    rcases hty with h | h <;> simp only [hst, h, e.1, e.2.1, e.2.2.1, e.2.2.2] <;> simp [ha]

/-- **SYN-ACK**: the first poll of an accepted connection answers the SYN with a state packet whose
`ack_nr` is the SYN's sequence number (`last_consumed` was initialised to it), at most
`max_retransmissions` are ever sent, each resend waits for the 200 ms timer, then the connection
fails with `MaxSynAckRetransmissionsReached`. -/
theorem synack_cap (v : VSock) (c : Ctx) (count : Nat) (hs : v.state = .synAckSent count)
    (hexp : Timer.expired v.timers.synAckResend v.pollNow = true) (hmax : count = v.opts.maxRetx) :
    ∃ f, v.maybeSendSynAck c = .error f ∧ f.e = .maxSynAckRetransmissionsReached := by
  unfold maybeSendSynAck
  simp only [hs, hexp, if_true, hmax, throw, throwThe, MonadExceptOf.throw]
  exact ⟨_, rfl, rfl⟩

theorem synack_waits_for_timer (v : VSock) (c : Ctx) (count : Nat) (hs : v.state = .synAckSent count)
    (hexp : Timer.expired v.timers.synAckResend v.pollNow = false) : v.maybeSendSynAck c = .ok (v, c) := by
  unfold maybeSendSynAck
  simp [hs, hexp, pure, Except.pure]

theorem synack_first (v : VSock) (c : Ctx) (hs : v.state = .synReceived) (hm : 0 < v.opts.maxRetx)
    (v' : VSock) (c' : Ctx) (bytes : List Nat)
    (hsa : v.sendAck c = .ok (v', c', true)) :
    ∃ v'', v.maybeSendSynAck c = .ok (v'', c') ∧ v''.state = .synAckSent 1 ∧
      v''.timers.synAckResend = some (v'.pollNow + 200000000) := by
  have h2 : SYNACK_RESEND_INTERNAL = 200000000 := by decide
  unfold maybeSendSynAck
  have hne : ¬ (0 = v.opts.maxRetx) := by omega
  simp only [hs, hne, if_false, hsa, if_true, pure, Except.pure]
  refine ⟨_, rfl, rfl, ?_⟩
  simp only [Timer.arm, h2]
  cases v'.timers.synAckResend <;> simp

/-- **The FIN is never withheld once everything before it is acknowledged.** If the peer has acknowledged
every sequence number before our FIN (`snd_una = fin`) and the FIN has not been sent (`last_sent` is behind
it, within the comparison tolerance), the clamp leaves `fin − last_sent_seq_nr = 1` — exactly the condition
under which `maybe_send_fin` emits the FIN (`maybeSendFin_spec`) — wherever `last_sent_seq_nr` had been
rewound to by an RTO. -/
theorem fin_not_withheld_after_full_ack (lastSent fin : Nat) (hl : lastSent < 65536) (hf : fin < 65536)
    (hbehind : 1 ≤ seqSub fin lastSent) (htol : seqSub fin lastSent ≤ Gen.WRAP_TOLERANCE) :
    seqSub fin (VSock.clampLastSent lastSent fin) = 1 := by
  unfold VSock.clampLastSent
  by_cases hc : seqSub lastSent (wsub fin 1) < 0
  · simp only [hc, if_true]
    unfold seqSub seqOffset wsub
    simp only [Gen.WRAP_TOLERANCE]
    repeat' split
    all_goals omega
  · simp only [hc, if_false]
    unfold seqSub seqOffset wsub at *
    simp only [Gen.WRAP_TOLERANCE] at *
    revert hbehind htol hc
    repeat' split
    all_goals (intros; omega)
/-- **The FIN that answers a remote FIN never shares its number with a queued segment's bytes (D22).** When the
remote's in-sequence FIN is accepted in Established, the segment queue afterwards contains no never-transmitted
segment: what was queued but never sent has gone back to the unsegmented part of the stream (the byte accounting
invariant is kept, `snd_una` is unchanged), so an acknowledgement of our FIN can only remove segments that were
really transmitted. -/
theorem remote_fin_leaves_no_unsent_segment (v : VSock) (hdr : Header) (hst : v.state = .established)
    (hfin : hdr.htype = Gen.TYPE_ST_FIN) (hseq : hdr.seqNr = wadd v.lastConsumedRemoteSeqNr 1) (hS : SInv v.segs) :
    let v' := (v.stateGate hdr).vsock
    trailingUnsent v'.segs.segs = 0 ∧ SInv v'.segs ∧ v'.segs.sndUna = v.segs.sndUna ∧
      v'.state = .lastAck (wadd v'.segs.sndUna (v'.segs.segs.length % 65536)) hdr.seqNr := by
  have hne1 : hdr.htype ≠ Gen.TYPE_ST_RESET := by rw [hfin]; decide
  have hne2 : hdr.htype ≠ Gen.TYPE_ST_SYN := by rw [hfin]; decide
  obtain ⟨h1, h2, _, _, _, h6⟩ := discardUnsent_ok v.segs hS
  unfold stateGate
  simp only [hst, hne1, hne2, hfin, hseq, if_false, if_true, ne_eq, not_true_eq_false, Gate.vsock]
  exact ⟨h6, h1, h2, rfl⟩

/-- **No FIN behind an outstanding MTU probe (D27).** While the newest queued segment is a probe the peer has not
acknowledged, `unsent_data_exists()` answers true - and `poll` schedules the endpoint's own FIN only when it answers
false. A lost probe is popped and its bytes are segmented again under its own and the FOLLOWING numbers, so a FIN
numbered right behind it would collide with the second piece (before the repair the FIN was then re-sent in that
piece's place and the piece was never transmitted). -/
theorem no_fin_behind_outstanding_probe (v : VSock) (c : Ctx) (h : v.probeOutstanding = true) :
    v.unsentDataExists c = .ok true := by
  unfold unsentDataExists
  split
  · rfl
  · simp [h, pure, Except.pure]

/-- Non-vacuity: a queue whose newest segment is an unacknowledged probe. -/
def probeSock : VSock :=
  { state := .established, opts := { nagle := true }, socketCreated := 0, connIdSend := 1,
    lastRemoteTimestamp := 0, lastRemoteWindow := 100000, seqNr := 6, lastSentSeqNr := 5,
    lastConsumedRemoteSeqNr := 0, lastSentAckNr := 0, lastSentWindow := 0,
    rx := Rx.build 1000 528, tx := TxRing.new 1000,
    segs := { (Segments.new 5) with segs := [{ payloadSize := 741, offsetAbs := 0, isMtuProbe := true }] },
    ss := { minSs := 528, maxSs := 952, cooldownRemaining := 1, cooldownMax := 3 } }
example : probeSock.probeOutstanding = true := by decide

/-- **Without an outstanding probe nothing is popped**: `pop_expired_mtu_probe` leaves the queue alone unless the
newest segment is an unacknowledged MTU probe. Together with `no_fin_behind_outstanding_probe` (the FIN is scheduled
only when there is none) and the fact that nothing is segmented after the FIN, this is why the queue can no longer
be re-split underneath a scheduled FIN (D27). -/
theorem no_pop_without_outstanding_probe (s : Segments) (timedOut : Bool) (maxRetx : Nat)
    (h : ∀ g, s.segs.getLast? = some g → (g.isMtuProbe && !g.isDelivered) = false) :
    ∃ r, s.popExpiredMtuProbe timedOut maxRetx = some (s, r) ∧ ∀ a b, r ≠ .expired a b := by
  unfold Segments.popExpiredMtuProbe
  cases hl : s.segs.getLast? with
  | none => exact ⟨_, rfl, by intro a b hh; cases hh⟩
  | some last =>
    have hp := h last hl
    by_cases hd : last.isDelivered = true
    · simp only [hd, if_true]; exact ⟨_, rfl, by intro a b hh; cases hh⟩
    · have hnp : last.isMtuProbe = false := by
        cases hm : last.isMtuProbe
        · rfl
        · simp [hm, hd] at hp
      simp [hd, hnp]

end UtpVerif.Props.C17
