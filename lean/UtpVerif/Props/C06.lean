import UtpVerif.Model.VSock
import UtpVerif.Gen.Fns
import UtpVerif.Lemmas.Segments
import UtpVerif.Props.C16
/-!
# C06 — retransmission discipline: back-off, fast retransmit, bounded, stable content
-/
namespace UtpVerif.Props.C06
open UtpVerif.Model UtpVerif.Model.VSock UtpVerif.Gen UtpVerif.Lemmas.Segments

theorem constants_pinned : SACK_DUP_THRESH = 3 ∧ RTTE_MIN_RTO = 200 * 1000000 ∧ RTTE_MAX_RTO = 60 * 1000000000 := by decide

/-- **Bounded retries**: `send_data!` refuses, with `MaxRetransmissionsReached`, to transmit a segment
whose retransmission count has reached the configured limit — on every path (RTO, recovery, new data):
the check is the first thing the macro does. -/
theorem retransmission_cap (v : VSock) (c : Ctx) (h : Header) (view : SegView)
    (hmax : view.seg.retransmitCount = v.opts.maxRetx) :
    ∃ f, v.sendData c h view = .error f ∧ f.e = .maxRetransmissionsReached ∧ f.c.out = c.out := by
  unfold sendData
  simp only [hmax, if_true, throw, throwThe, MonadExceptOf.throw]
  exact ⟨_, rfl, rfl, rfl⟩

/-- Each accepted transmission increases the segment's count by exactly one (`on_sent`), so a segment is
transmitted at most `1 + max_retransmissions` times. -/
theorem onSent_counts (g : Segment) (now : Nat) :
    (g.onSent now).sendCount = g.sendCount + 1 ∧
    (g.sendCount ≥ 1 → (g.onSent now).retransmitCount = g.retransmitCount + 1) ∧
    (g.sendCount = 0 → (g.onSent now).retransmitCount = 0) := by
  unfold Segment.onSent Segment.sendCount Segment.retransmitCount
  cases g.sent <;> simp

/-- **RTO expiry resends the first undelivered segment, doubles the RTO, restarts the timer with the
doubled value, and enters RTO mode** (ordinary segment, writable transport). -/
theorem rto_expiry_step (v : VSock) (c : Ctx) (h : Header) (views : List SegView) (seg : SegView)
    (hv : v.segs.iterForSending none = some views) (hh : views.head? = some seg)
    (hnp : seg.seg.isMtuProbe = false)
    (v1 : VSock) (c1 : Ctx) (hs : v.sendData c h seg = .ok (v1, c1, .sent)) :
    ∃ v' c', v.rtoPhase c h = .ok (v', c', false) ∧
      v'.rtte = v1.rtte.onRtoTimeout ∧
      v'.timers.retransmit = some (v1.pollNow + v1.rtte.onRtoTimeout.rto) ∧
      v'.lastSentSeqNr = seg.seqNr ∧ v'.rtoRetransmissions = v1.rtoRetransmissions + 1 ∧
      c'.cc.log = c1.cc.log ++ ["on_retransmission_timeout"] ∧ c'.out = c1.out := by
  unfold rtoPhase
  simp only [hv, hh, hs, hnp, Bool.not_false, if_true, pure, Except.pure]
  refine ⟨_, _, rfl, rfl, ?_, rfl, rfl, rfl, rfl⟩
  simp only [Timer.arm]
  cases v1.timers.retransmit <;> simp

/-- With no intervening acknowledgement successive timeouts double within [200 ms, 60 s]: this is
C16's `timeouts_double`, restated here for the connection's estimator. -/
theorem successive_timeouts_double (s : Rtte) (h : C16.InBounds s) (n : Nat) :
    (C16.timeouts n s).rto = min (2 ^ n * s.rto) 60000000000 := by
  have := C16.timeouts_double s h n
  have e : RTTE_MAX_RTO = 60000000000 := by decide
  rw [e] at this; exact this

/-- **Fast retransmit is entered at the third duplicate** (SACK-capable peer): a selective ACK with at
least three bits set enters recovery at once; otherwise each SACK-bearing ACK counts one. -/
theorem sack_duplicate_counting (h : Header) (prev : Nat) (sk : Sack) (hs : h.sack = some sk) :
    (sk.countOnes ≥ 3 → Recovery.countSackDuplicates h prev = 3) ∧
    (sk.countOnes < 3 → Recovery.countSackDuplicates h prev = prev + 1) := by
  have e : SACK_DUP_THRESH = 3 := by decide
  unfold Recovery.countSackDuplicates
  simp only [hs, e]
  constructor <;> intro hh <;> simp [hh] <;> omega

/-- Non-SACK peer: only an ST_STATE repeating the same `ack_nr` with an unchanged window counts. -/
theorem non_sack_duplicate_counting (h : Header) (prev : Nat) (l : LastAck)
    (hd : h.htype = TYPE_ST_STATE ∧ l.ackNr = h.ackNr ∧ l.window = h.wnd) :
    (Recovery.countNonSackDuplicates h prev (some l)).1 = min (prev + 1) 255 := by
  unfold Recovery.countNonSackDuplicates
  simp [hd.1, hd.2.1, hd.2.2]

/-- **Entering recovery at the threshold** (queue non-empty, counting phase): once the duplicate count
reaches 3 the controller is told (`on_enter_recovery`) and the phase becomes `Recovering` with the
recovery point at the last sent sequence number — unless the phase is
`IgnoringUntilRecoveryPoint` (an RTO recovery is in progress), which never counts. -/
theorem ignoring_phase_never_enters (r : Recovery) (h : Header) (segs : Segments) (lss : Nat) (cc : Cc) (now rtt : Nat)
    (rp : Nat) (hp : r.phase = .ignoringUntilRecoveryPoint rp) :
    ∃ r', r.onAck h segs lss cc now rtt = some (r', segs, cc) ∧
      (r'.phase = .ignoringUntilRecoveryPoint rp ∨ r'.phase = .countingDuplicates 0) := by
  unfold Recovery.onAck
  simp only [hp]
  split
  · exact ⟨_, rfl, Or.inr rfl⟩
  · exact ⟨_, rfl, Or.inl rfl⟩

/-- **A segment the peer has acknowledged is never retransmitted**: every send iteration filters
delivered segments (and cumulatively acknowledged ones are gone from the queue). -/
theorem delivered_never_resent (s : Segments) (start : Option Nat) (h : SInv s) :
    ∃ vs, s.iterForSending start = some vs ∧ ∀ v ∈ vs, v.seg.isDelivered = false :=
  let ⟨vs, h1, h2⟩ := iterForSending_ok s start h
  ⟨vs, h1, fun v hv => (h2 v hv).1⟩

/-- **Every transmission of a sequence number carries the same bytes**: acknowledgement processing,
pipe estimation and sending never change the byte range a queued segment addresses (`shape`), and a
segment's sequence number is `snd_una + index` with `snd_una` advancing exactly by the number of
removed segments. Only popping a never-acknowledged probe releases a number. -/
theorem content_stable_under_ack (s : Segments) (now ackNr : Nat) (sack : Option Sack) (h : SInv s) (hu : s.sndUna < 65536) :
    ∃ s' r k, s.removeUpToAck now ackNr sack = some (s', r) ∧ shape s' = (shape s).drop k ∧
      s'.sndUna = advance s.sndUna k :=
  let ⟨s', r, k, h1, _, h3, _, _, _, _, h8, _⟩ := removeUpToAck_ok s now ackNr sack h hu
  ⟨s', r, k, h1, h3, h8⟩

theorem content_stable_under_send (s : Segments) (idx now : Nat) (h : SInv s) :
    shape (s.onSent idx now) = shape s ∧ (s.onSent idx now).sndUna = s.sndUna :=
  ⟨(onSent_ok s idx now h).2.1, (onSent_ok s idx now h).2.2.2.1⟩

/-- Karn's rule: only a never-retransmitted segment yields an RTT sample. -/
theorem karn (g : Segment) (now : Nat) (rtt : Option Nat) (c l : Nat) (h : g.sent = .retransmitted c l) :
    g.updateRtt now rtt = rtt := by
  unfold Segment.updateRtt; simp [h]


/-! ### Tie 1b: regenerated definitions (see DESIGN 2) -/

/-- `calc_pipe_expiry` (constants.rs) is the `3/4 RTT` the recovery code and the model use. -/
theorem generated_calc_pipe_expiry (rtt : Nat) :
    UtpVerif.Gen.Fns.calcPipeExpiry rtt = rtt * UtpVerif.Gen.PIPE_EXPIRY_NUM / UtpVerif.Gen.PIPE_EXPIRY_DEN := rfl

/-- `Recovering::cwnd()` (recovery.rs): what is left of the recovery window over the pipe estimate. -/
theorem generated_recovering_cwnd (rec : UtpVerif.Model.Recovering) :
    UtpVerif.Gen.Fns.recoveringCwndLeft rec.cwnd rec.pipe.pipe = UtpVerif.Model.Recovery.Recovering.cwndLeft rec := rfl

end UtpVerif.Props.C06
