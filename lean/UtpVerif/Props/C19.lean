import UtpVerif.Model.TxRing
/-!
# C19 — send-side buffering is bounded; write applies back-pressure

`Hist` is a ghost history (every byte `poll_write` ever accepted, and how many bytes acknowledgement
processing removed).  The invariant ties the ring to it for *every* operation sequence, every
initial/maximum size.
-/
namespace UtpVerif.Props.C19
open UtpVerif.Model UtpVerif.Model.TxRing

structure Hist where
  written : List Nat := []
  removed : Nat := 0

inductive Op where
  | write (buf : List Nat)
  | trunc (n : Nat)          -- acknowledgement processing, `n ≤` bytes held (guard at the call site)
  | grow
  | flush
  | shutdown
  | dropWriter
  | close
  | takeWriterWaker
  | registerDispatcher

/-- One step of ring + ghost history; `maxSize` is the configured `vsock_tx_bufsize_bytes_max`. -/
def step (maxSize : Nat) (s : TxRing × Hist) : Op → TxRing × Hist
  | .write buf =>
    let (t', r, _) := s.1.pollWrite buf
    match r with
    | .ready n => (t', { s.2 with written := s.2.written ++ buf.take n })
    | _ => (t', s.2)
  | .trunc n =>
    if n ≤ s.1.ring.length then ((s.1.truncateFront n).1, { s.2 with removed := s.2.removed + n }) else s
  | .grow => ((s.1.grow maxSize).1, s.2)
  | .flush => (s.1.pollFlush.1, s.2)
  | .shutdown => (s.1.pollShutdown.1, s.2)
  | .dropWriter => (s.1.dropWriter.1, s.2)
  | .close => (s.1.markVsockClosed.1, s.2)
  | .takeWriterWaker => (s.1.takeWriterWaker.1, s.2)
  | .registerDispatcher => (s.1.registerDispatcher, s.2)

def Inv (bound : Nat) (s : TxRing × Hist) : Prop :=
  s.1.ring = s.2.written.drop s.2.removed ∧ s.1.ring.length ≤ s.1.cap ∧ s.1.cap ≤ bound ∧
  s.2.removed ≤ s.2.written.length

/-- **`poll_write` accepts exactly the prefix that fits**: `n = min(|buf|, cap − |ring|) > 0`,
appended in order at the end. -/
theorem write_ready_spec (t : TxRing) (buf : List Nat) (t' : TxRing) (n : Nat) (ws : List Wake)
    (h : t.pollWrite buf = (t', .ready n, ws)) :
    n = min buf.length (t.cap - t.ring.length) ∧ 0 < n ∧ t'.ring = t.ring ++ buf.take n ∧ t'.cap = t.cap := by
  unfold pollWrite at h
  dsimp only at h
  repeat' split at h
  all_goals simp only [Prod.mk.injEq, reduceCtorEq, false_and, and_false, WriteRes.ready.injEq] at h
  all_goals
    obtain ⟨rfl, rfl, _⟩ := h
    exact ⟨rfl, by omega, rfl, rfl⟩

/-- **Back-pressure**: a live, not-yield-limited write that finds no room (or is empty) returns
Pending *and has registered the writer's waker*; it buffers nothing. -/
theorem write_full_waits (t : TxRing) (buf : List Nat)
    (hy : ¬ t.writtenWithoutYield > UtpVerif.Gen.YIELD_EVERY) (hc : t.vsockClosed = false)
    (hs : t.writerShutdown = false) (hd : t.writerDropped = false)
    (hfull : min buf.length (t.cap - t.ring.length) = 0) :
    ∃ t', t.pollWrite buf = (t', .pending, []) ∧ t'.writerWaker = true ∧ t'.ring = t.ring := by
  unfold pollWrite
  simp [hy, hc, hs, hd, hfull]

/-- Every other result buffers nothing. -/
theorem write_not_ready_buffers_nothing (t : TxRing) (buf : List Nat) (t' : TxRing) (r : WriteRes) (ws : List Wake)
    (h : t.pollWrite buf = (t', r, ws)) (hr : ∀ n, r ≠ .ready n) : t'.ring = t.ring ∧ t'.cap = t.cap := by
  unfold pollWrite at h
  dsimp only at h
  repeat' split at h
  all_goals simp only [Prod.mk.injEq] at h
  all_goals obtain ⟨rfl, rfl, _⟩ := h
  all_goals first
    | exact ⟨rfl, rfl⟩
    | (exfalso; exact hr _ rfl)
    | (rename_i hz _; exact ⟨by simp only [hz, List.take_zero, List.append_nil], rfl⟩)

/-- An accepting write wakes the connection task if it had registered for it (it registers
exactly when it found the ring empty). -/
theorem write_wakes_dispatcher (t : TxRing) (buf : List Nat) (t' : TxRing) (n : Nat) (ws : List Wake)
    (h : t.pollWrite buf = (t', .ready n, ws)) (hreg : t.dispatcherWaker = true) :
    ws = [.dispatcher] ∧ t'.dispatcherWaker = false := by
  unfold pollWrite at h
  dsimp only at h
  repeat' split at h
  all_goals simp only [Prod.mk.injEq, reduceCtorEq, false_and, and_false, WriteRes.ready.injEq] at h
  all_goals first
    | (obtain ⟨rfl, _, rfl⟩ := h; exact ⟨rfl, rfl⟩)
    | (rename_i hno; simp [hreg] at hno)

/-- A shutdown request on a drained live ring wakes the connection task too (the FIN has to go out). -/
theorem shutdown_wakes_dispatcher (t : TxRing) (he : t.ring = []) (hc : t.vsockClosed = false)
    (hreg : t.dispatcherWaker = true) :
    ∃ t', t.pollShutdown = (t', .pending, [.dispatcher]) ∧ t'.writerShutdown = true ∧ t'.writerWaker = true := by
  unfold pollShutdown
  simp [he, hc, hreg]

/-- Dropping the writer wakes the connection task. -/
theorem drop_wakes_dispatcher (t : TxRing) (hd : t.writerDropped = false) (hreg : t.dispatcherWaker = true) :
    t.dropWriter.2 = [.dispatcher] ∧ t.dropWriter.1.writerDropped = true := by
  unfold dropWriter; simp [hd, hreg]

/-- **Growth never loses, duplicates or reorders**: content identical; capacity doubles up to the
maximum, and only if below it. -/
theorem grow_content (t : TxRing) (maxSize : Nat) (hl : t.ring.length ≤ t.cap) :
    (t.grow maxSize).1.ring = t.ring := by
  unfold grow
  by_cases h : t.cap ≥ maxSize
  · simp only [h, if_true]
  · simp only [h, if_false]
    exact List.take_of_length_le (by omega)

theorem grow_at_max (t : TxRing) (maxSize : Nat) (h : t.cap ≥ maxSize) :
    (t.grow maxSize).1.cap = t.cap ∧ (t.grow maxSize).2 = none := by
  unfold grow; simp only [h, if_true]; exact ⟨trivial, trivial⟩

theorem grow_below_max (t : TxRing) (maxSize : Nat) (h : t.cap < maxSize) (hp : 0 < t.cap) :
    (t.grow maxSize).1.cap = min (t.cap * 2) maxSize ∧ (t.grow maxSize).2 = some (min (t.cap * 2) maxSize) ∧
    t.cap < (t.grow maxSize).1.cap := by
  unfold grow
  have : ¬ t.cap ≥ maxSize := by omega
  simp only [this, if_false]
  exact ⟨trivial, trivial, by omega⟩

/-- **Acknowledged bytes leave from the front**: exactly the first `n`, or the internal error when
more is asked than is held. -/
theorem truncate_spec (t : TxRing) (n : Nat) :
    (n ≤ t.ring.length → (t.truncateFront n).1.ring = t.ring.drop n ∧ (t.truncateFront n).2 = true) ∧
    (t.ring.length < n → (t.truncateFront n).2 = false) := by
  unfold truncateFront
  constructor
  · intro h; simp [Nat.min_eq_left h]
  · intro h; simp only [decide_eq_false_iff_not]; omega

/-- After acknowledgements free space the dispatcher takes the writer's waker: a blocked writer is woken. -/
theorem blocked_writer_woken (t : TxRing) (h : t.writerWaker = true) :
    t.takeWriterWaker.2 = [.writer] := by
  unfold takeWriterWaker; simp [h]

theorem step_inv (bound maxSize : Nat) (hm : maxSize ≤ bound) (s : TxRing × Hist) (op : Op) (h : Inv bound s) :
    Inv bound (step maxSize s op) := by
  obtain ⟨t, hist⟩ := s
  obtain ⟨hr, hl, hc, hrm⟩ := h
  simp only at hr hl hc hrm
  cases op with
  | write buf =>
    simp only [step]
    cases hw : t.pollWrite buf with
    | mk t' rest =>
      obtain ⟨r, ws⟩ := rest
      simp only
      cases r with
      | ready n =>
        obtain ⟨hn, _, hring, hcap⟩ := write_ready_spec t buf t' n ws hw
        refine ⟨?_, ?_, by simp only; omega, ?_⟩
        · simp only [hring, hr]
          rw [List.drop_append_of_le_length hrm]
        · simp only [hring, List.length_append, List.length_take]; omega
        · simp only [List.length_append]; omega
      | pending => obtain ⟨h1, h2⟩ := write_not_ready_buffers_nothing t buf t' _ ws hw (by intro n; simp)
                   exact ⟨by simp only [h1, hr], by simp only [h1, h2]; exact hl, by simp only [h2]; exact hc, hrm⟩
      | errClosed => obtain ⟨h1, h2⟩ := write_not_ready_buffers_nothing t buf t' _ ws hw (by intro n; simp)
                     exact ⟨by simp only [h1, hr], by simp only [h1, h2]; exact hl, by simp only [h2]; exact hc, hrm⟩
      | errShutdown => obtain ⟨h1, h2⟩ := write_not_ready_buffers_nothing t buf t' _ ws hw (by intro n; simp)
                       exact ⟨by simp only [h1, hr], by simp only [h1, h2]; exact hl, by simp only [h2]; exact hc, hrm⟩
      | errDropped => obtain ⟨h1, h2⟩ := write_not_ready_buffers_nothing t buf t' _ ws hw (by intro n; simp)
                      exact ⟨by simp only [h1, hr], by simp only [h1, h2]; exact hl, by simp only [h2]; exact hc, hrm⟩
  | trunc n =>
    simp only [step]
    split
    · rename_i hn
      have := (truncate_spec t n).1 hn
      refine ⟨?_, ?_, by simp only [truncateFront]; exact hc, ?_⟩
      · simp only [this.1, hr, List.drop_drop]
      · simp only [this.1, List.length_drop, truncateFront]; omega
      · simp only [hr, List.length_drop] at hn; simp only; omega
    · exact ⟨hr, hl, hc, hrm⟩
  | grow =>
    simp only [step]
    have hg := grow_content t maxSize hl
    have hcap : t.cap ≤ (t.grow maxSize).1.cap ∧ (t.grow maxSize).1.cap ≤ max t.cap maxSize := by
      unfold grow
      by_cases h : t.cap ≥ maxSize
      · simp only [h, if_true]; omega
      · simp only [h, if_false]; omega
    refine ⟨by simp only [hg, hr], ?_, ?_, hrm⟩
    · simp only [hg]; omega
    · simp only; omega
  | flush => simp only [step, pollFlush]; repeat' split
             all_goals exact ⟨hr, hl, hc, hrm⟩
  | shutdown => simp only [step, pollShutdown]; repeat' split
                all_goals exact ⟨hr, hl, hc, hrm⟩
  | dropWriter => simp only [step, dropWriter]; repeat' split
                  all_goals exact ⟨hr, hl, hc, hrm⟩
  | close => simp only [step, markVsockClosed]; repeat' split
             all_goals exact ⟨hr, hl, hc, hrm⟩
  | takeWriterWaker => simp only [step, takeWriterWaker]; repeat' split
                       all_goals exact ⟨hr, hl, hc, hrm⟩
  | registerDispatcher => exact ⟨hr, hl, hc, hrm⟩

/-- The invariant holds in every reachable state. -/
theorem inv_reachable (initial maxSize : Nat) (ops : List Op) :
    Inv (max initial maxSize) (ops.foldl (step maxSize) (TxRing.new initial, {})) := by
  have key : ∀ s, Inv (max initial maxSize) s → Inv (max initial maxSize) (ops.foldl (step maxSize) s) := by
    induction ops with
    | nil => intro s h; exact h
    | cons op t ih => intro s h; exact ih _ (step_inv _ maxSize (by omega) s op h)
  exact key _ (by unfold Inv TxRing.new; simp; omega)

/-- **Bounded buffering for every history**: for all write sizes and timings, all acknowledgement
schedules (including a peer that never acknowledges), all initial/maximum sizes — the bytes accepted
but not yet acknowledged are exactly the ring content, in order, and never exceed
`max(initial, maximum)`. -/
theorem accepted_minus_acked_bounded (initial maxSize : Nat) (ops : List Op) :
    let s := ops.foldl (step maxSize) (TxRing.new initial, {})
    s.1.ring = s.2.written.drop s.2.removed ∧
    s.2.written.length - s.2.removed = s.1.ring.length ∧
    s.1.ring.length ≤ max initial maxSize := by
  have key : ∀ s, Inv (max initial maxSize) s → Inv (max initial maxSize) (ops.foldl (step maxSize) s) := by
    induction ops with
    | nil => intro s h; exact h
    | cons op t ih => intro s h; exact ih _ (step_inv _ maxSize (by omega) s op h)
  have h0 : Inv (max initial maxSize) (TxRing.new initial, ({} : Hist)) := by
    unfold Inv TxRing.new; simp; omega
  obtain ⟨h1, h2, h3, h4⟩ := key _ h0
  refine ⟨h1, ?_, by omega⟩
  rw [h1, List.length_drop]

/-- **What goes on the wire is the ring content at the requested offset**, whatever the internal
wrap position `k` of the ring buffer, and never one of the internal `Bug*` errors, as long as the
range lies inside the ring. -/
theorem prepare2_correct (ring : List Nat) (k off len : Nat) (h : off + len ≤ ring.length) :
    prepare2 (ring.take k) (ring.drop k) off len = .ok ((ring.drop off).take len) := by
  unfold prepare2
  simp only [List.length_take, List.length_drop]
  have e1 : ¬ (off - min (min k ring.length) off > ring.length - k) := by omega
  simp only [e1, if_false]
  have e2 : ¬ (len - min (min k ring.length - min (min k ring.length) off) len >
      ring.length - k - (off - min (min k ring.length) off)) := by omega
  simp only [e2, if_false, SliceRes.ok.injEq]
  rcases Nat.le_total k off with hk | hk
  · -- everything comes from the second slice
    have hm : min (min k ring.length) off = min k ring.length := by omega
    rw [hm]
    have h1 : List.drop (min k ring.length) (List.take k ring) = [] := by
      apply List.drop_of_length_le; rw [List.length_take]; exact Nat.le_refl _
    simp only [h1, List.take_nil, List.nil_append, List.length_nil, Nat.min_zero, Nat.sub_zero, Nat.zero_min,
      List.drop_drop]
    congr 2
    all_goals omega
  · have hm : min (min k ring.length) off = off := by omega
    rw [hm]
    simp only [Nat.sub_self, List.drop_zero]
    rw [List.drop_take]
    rcases Nat.le_total (off + len) k with hk2 | hk2
    · have : min (min k ring.length - off) len = len := by omega
      rw [this]
      simp only [Nat.sub_self, List.take_zero, List.append_nil, List.take_take]
      congr 1; omega
    · have hml : min (min k ring.length - off) len = k - off := by omega
      rw [hml]
      have : List.take (k - off) (List.take (k - off) (List.drop off ring)) = List.take (k - off) (List.drop off ring) := by
        rw [List.take_take]; congr 1; omega
      rw [this]
      have hd : List.drop k ring = List.drop (k - off) (List.drop off ring) := by
        rw [List.drop_drop]; congr 1; omega
      rw [hd, ← List.take_add]
      congr 1; omega

-- Non-vacuity: a concrete run that fills, back-pressures, acks, grows.
example :
    let s := [Op.write [1, 2, 3], .write [4, 5], .trunc 2, .grow, .write [6, 7, 8]].foldl (step 8) (TxRing.new 4, {})
    s.1.ring = [3, 4, 6, 7, 8] ∧ s.1.cap = 8 ∧ s.2.written = [1, 2, 3, 4, 6, 7, 8] ∧ s.2.removed = 2 := by decide

end UtpVerif.Props.C19
