import UtpVerif.Lemmas.Sock
/-!
# C12 — concurrent connections on one socket are isolated and bounded

Theorems about the dispatcher model (`Model/Sock.lean`), for every sequence of events `select!` may deliver
(acceptors, control requests, datagrams with any bytes from any address, idle wake-ups), every limit, every
supply of random numbers and every liveness of requesters: all quantifiers are unbounded.
-/
namespace UtpVerif.Props.C12
open UtpVerif.Model UtpVerif.Model.Disp UtpVerif.Gen

/-- the dispatcher after any sequence of loop iterations -/
def run (d : Disp) (evs : List Event) : Disp := evs.foldl (fun d ev => (d.runOnce ev).1) d

theorem run_inv {m : Nat} (d : Disp) (evs : List Event) (h : TInv m d) : TInv m (run d evs) := by
  induction evs generalizing d with
  | nil => exact h
  | cons ev evs ih => exact ih _ (runOnce_inv d ev h)

/-- A fresh dispatcher (what `new_with_opts_and_dispatcher` builds): any limit, any random supply, any flags. -/
def fresh (d : Disp) : Prop := d.streams = []

theorem fresh_inv (d : Disp) (h : fresh d) : TInv d.maxActive d :=
  ⟨by unfold fresh at h; simp [keys, h], by unfold fresh at h; simp [h], rfl⟩

/-- **The number of live connections never exceeds the configured limit, and connection ids in use between
one address pair are unique** — after any number and order of events. -/
theorem limit_and_unique_keys_always (d : Disp) (hf : fresh d) (evs : List Event) :
    (run d evs).streams.length ≤ d.maxActive ∧ (run d evs).keys.Nodup := by
  have h := run_inv d evs (fresh_inv d hf)
  exact ⟨by have := h.limit; rw [h.max] at this; exact this, h.nodup⟩

/-- **A datagram is only ever delivered to the connection whose peer address and connection id it names**:
every delivery made in a loop iteration is of the datagram `select!` received, to the table entry under
(its source address, its connection id). -/
theorem delivered_only_to_named_connection (d : Disp) (ev : Event) (k : Key) (h : Header)
    (hd : Eff.delivered k h ∈ (d.runOnce ev).2) :
    ∃ bytes payload, ev = .datagram k.addr bytes ∧ Message.deserialize bytes = some (h, payload) ∧
      k.id = h.connId ∧ d.cleanupAcceptQueue.1.hasKey k = true := by
  unfold runOnce at hd
  simp only [List.mem_append] at hd
  rcases hd with hd | hd
  · exact absurd (cleanup_noDeliver d _ hd) (by simp [Eff.isDelivered])
  · generalize d.cleanupAcceptQueue.1 = dc at hd ⊢
    cases ev with
    | idle => simp [handle] at hd
    | acceptor =>
      simp only [handle] at hd
      split at hd <;> simp at hd
    | control c => exact absurd (onControl_noDeliver dc c _ hd) (by simp [Eff.isDelivered])
    | datagram addr bytes =>
      simp only [handle] at hd
      split at hd
      · simp at hd
      · rename_i h' p hdes
        unfold onRecv at hd
        dsimp only at hd
        split at hd
        · rename_i hk
          split at hd
          · simp at hd
          · simp only [List.mem_singleton, Eff.delivered.injEq] at hd
            obtain ⟨rfl, rfl⟩ := hd
            exact ⟨bytes, p, rfl, hdes, rfl, hk⟩
        · split at hd
          · exact absurd (onMaybeConnectAck_noDeliver dc addr h' _ hd) (by simp [Eff.isDelivered])
          · split at hd
            · exact absurd (onSyn_noDeliver dc addr h' _ hd) (by simp [Eff.isDelivered])
            · simp at hd

theorem find_of_nodup_keys (l : List (Key × Nat)) (hn : (l.map (·.1)).Nodup) (x : Key × Nat) (hx : x ∈ l) :
    l.find? (·.1 == x.1) = some x := by
  induction l with
  | nil => cases hx
  | cons y ys ih =>
    simp only [List.map_cons, List.nodup_cons] at hn
    rcases List.mem_cons.mp hx with rfl | hx'
    · simp
    · have hne : y.1 ≠ x.1 := by
        intro he
        exact hn.1 (by rw [he]; exact List.mem_map.mpr ⟨x, hx', rfl⟩)
      rw [List.find?_cons]
      have : (y.1 == x.1) = false := by simpa using hne
      rw [this]
      exact ih hn.2 hx'

theorem handle_keeps (d : Disp) (hn : d.keys.Nodup) (ev : Event) (x : Key × Nat) (hx : x ∈ d.streams) :
    x ∈ (d.handle ev).1.streams ∨ ev = .control (.shutdown x.1 none) ∨ ev = .control (.shutdown x.1 (some x.2)) ∨
      (∃ bytes h p, ev = .datagram x.1.addr bytes ∧ Message.deserialize bytes = some (h, p) ∧ h.connId = x.1.id ∧
        x.2 ∈ d.deadStreams) := by
  cases ev with
  | idle => exact Or.inl hx
  | acceptor =>
    left
    simp only [handle]
    split
    · exact hx
    · exact hx
  | control c =>
    by_cases hc : ∃ k o, c = .shutdown k o
    · obtain ⟨k, o, rfl⟩ := hc
      by_cases hk : x.1 = k
      · subst hk
        cases o with
        | none => right; left; rfl
        | some inst =>
          by_cases hi : inst = x.2
          · subst hi; right; right; left; rfl
          · -- another stream's Shutdown for this key: ignored
            left
            have hf := find_of_nodup_keys d.streams hn x hx
            have : d.instOf x.1 ≠ some inst := by
              simp only [instOf, hf, Option.map_some]
              intro h; exact hi (by simpa using h.symm)
            simp only [handle, onControl, this, if_false]
            exact hx
      · left
        simp only [handle, onControl]
        split
        · exact removeKey_keeps_others d k x hx hk
        · split
          · exact removeKey_keeps_others d k x hx hk
          · exact hx
    · left
      exact onControl_keeps d c (fun k o hk => hc ⟨k, o, hk⟩) x hx
  | datagram addr bytes =>
    simp only [handle]
    split
    · exact Or.inl hx
    · rename_i h p hdes
      unfold onRecv
      dsimp only
      split
      · rename_i hk
        split
        · rename_i hdead
          by_cases hxk : x.1 = { addr := addr, id := h.connId }
          · right; right; right
            refine ⟨bytes, h, p, by rw [hxk], hdes, by rw [hxk], ?_⟩
            -- the instance registered under that key is `x.2`
            have hf := find_of_nodup_keys d.streams hn x hx
            rw [← hxk] at hdead
            simpa [instOf, hf] using hdead
          · left; exact removeKey_keeps_others d _ x hx hxk
        · exact Or.inl hx
      · rename_i hk
        left
        split
        · exact onMaybeConnectAck_keeps d addr h (by simpa using hk) x hx
        · split
          · exact onSyn_keeps d addr h x hx
          · exact hx

/-- **Attempts beyond the limit, and everything else the dispatcher does, never evict an existing
connection**: an entry (key ↦ connection instance) leaves the table in a loop iteration only because that
iteration processed the `Shutdown` request of THAT SAME instance (sent when the connection's task ends; or an
untagged one, which only the verification hook sends), or because a datagram for exactly that key found the
connection's task gone. In particular the late `Shutdown` of an earlier connection that used the same key is
ignored (D20). -/
theorem no_eviction {m : Nat} (d : Disp) (hi : TInv m d) (ev : Event) (x : Key × Nat) (hx : x ∈ d.streams) :
    x ∈ (d.runOnce ev).1.streams ∨ ev = .control (.shutdown x.1 none) ∨ ev = .control (.shutdown x.1 (some x.2)) ∨
      (∃ bytes h p, ev = .datagram x.1.addr bytes ∧ Message.deserialize bytes = some (h, p) ∧ h.connId = x.1.id ∧
        x.2 ∈ d.cleanupAcceptQueue.1.deadStreams) := by
  unfold runOnce
  have hc := cleanup_keeps d x hx
  exact handle_keeps d.cleanupAcceptQueue.1 (cleanup_inv d hi).nodup ev x hc

/-- A connect() attempt beyond the limit fails with `TooManyActiveConnections` and changes nothing. -/
theorem connect_beyond_limit_fails (d : Disp) (addr token : Nat) (h : d.streamsFull = true) :
    d.onControl (.connectRequest addr token) = (d, [.connectErr token .tooMany]) := by
  simp [onControl, h]

/-- A SYN-ACK that arrives while the table is full is dropped (the connect keeps waiting), a SYN is cached
or refused: neither touches the table. -/
theorem full_table_untouched_by_handshakes (d : Disp) (addr : Nat) (h : Header) (hf : d.streamsFull = true) :
    (d.onMaybeConnectAck addr h).1 = d ∧ (d.onSyn addr h).1.streams = d.streams := by
  constructor
  · simp [onMaybeConnectAck, hf]
  · -- nothing can be inserted while full
    have hm : ∀ (d : Disp) (s : Syn) (a : Acceptor), d.streamsFull = true → (d.matchSynWithAccept s a).2.1 = d := by
      intro d s a hf; simp [matchSynWithAccept, hf]
    have hl : ∀ fuel (d : Disp) (s : Syn) (effs : List Eff), d.streamsFull = true →
        (onSynLoop fuel d s effs).1.streams = d.streams := by
      intro fuel
      induction fuel with
      | zero => intro d s effs _; rfl
      | succ n ih =>
        intro d s effs hf
        unfold onSynLoop
        split
        · rfl
        · rename_i a d1 hta
          have hs := tryNextAcceptor_same d
          rw [hta] at hs
          have hf1 : d1.streamsFull = true := by rw [hs.full]; exact hf
          have := hm d1 s a hf1
          simp only [matchSynWithAccept, hf1, if_true]
          exact hs.1
    unfold onSyn
    split
    · rename_i hr
      split at hr
      · have := hl (d.acceptorsWaiting + 1) d { remote := addr, h := h } [] hf
        rw [hr] at this; exact this
      · simp at hr
    · rename_i d' s' e hr
      have hd' : d'.streams = d.streams := by
        split at hr
        · have := hl (d.acceptorsWaiting + 1) d { remote := addr, h := h } [] hf
          rw [hr] at this; exact this
        · simp only [Prod.mk.injEq] at hr; rw [← hr.1]
      split
      · exact hd'
      · split <;> exact hd'

/-- **The late Shutdown of an earlier connection does not touch its successor** (D20): a `Shutdown` tagged with
an instance that is not the one registered under the key changes nothing. -/
theorem stale_shutdown_ignored (d : Disp) (k : Key) (old : Nat) (h : d.instOf k ≠ some old) :
    d.onControl (.shutdown k (some old)) = (d, []) := by
  simp [onControl, h]

/-! ### The connection id chosen for an outgoing connect is fresh -/

/-- the ids the loop of `get_next_free_conn_id` visits -/
def visited (id0 j : Nat) : List Nat := (List.range j).map (fun i => w16 (id0 + 2 * i))

theorem visited_nodup (id0 j : Nat) (hj : j ≤ 32768) : (visited id0 j).Nodup := by
  unfold visited
  refine List.pairwise_map.2 (List.Pairwise.imp_of_mem ?_ List.pairwise_lt_range)
  intro a b ha hb hab
  simp only [List.mem_range] at ha hb
  simp only [w16]
  omega

theorem loop_spec (fuel : Nat) (d : Disp) (addr : Nat) (hid : d.nextConnId < 65536) :
    ∃ j, j ≤ fuel ∧ (nextFreeConnIdLoop fuel d addr).nextConnId = w16 (d.nextConnId + 2 * j) ∧
      (nextFreeConnIdLoop fuel d addr).streams = d.streams ∧
      (∀ i < j, d.hasKey { addr := addr, id := w16 (d.nextConnId + 2 * i) } = true) ∧
      (j < fuel → (nextFreeConnIdLoop fuel d addr).hasKey { addr := addr, id := (nextFreeConnIdLoop fuel d addr).nextConnId } = false) := by
  induction fuel generalizing d with
  | zero => exact ⟨0, Nat.le_refl _, by simp [nextFreeConnIdLoop, w16]; omega, rfl, by intro i hi; omega, by intro h; omega⟩
  | succ n ih =>
    unfold nextFreeConnIdLoop
    split
    · rename_i hk
      obtain ⟨j, hj, h1, h2, h3, h4⟩ := ih { d with nextConnId := w16 (d.nextConnId + 2) } (by simp only [w16]; omega)
      refine ⟨j + 1, by omega, ?_, h2, ?_, ?_⟩
      · rw [h1]; simp only [w16]; omega
      · intro i hi
        cases i with
        | zero => simpa [w16, Nat.mod_eq_of_lt hid] using hk
        | succ i =>
          have := h3 i (by omega)
          have he : w16 (w16 (d.nextConnId + 2) + 2 * i) = w16 (d.nextConnId + 2 * (i + 1)) := by simp only [w16]; omega
          simpa [Disp.hasKey, keys, he] using this
      · intro hlt
        exact h4 (by omega)
    · rename_i hk
      exact ⟨0, by omega, by simp [w16, Nat.mod_eq_of_lt hid], rfl, by intro i hi; omega, by intro _; simpa using hk⟩

/-- **The connection id chosen for a new outgoing connect is not in use with that peer**, provided fewer than
32768 connections are live (then the bounded loop finds a free id of the required parity; with 32768 live
same-parity ids for one peer the real loop would not terminate - unreachable below that many connections). -/
theorem next_free_conn_id_is_free (d : Disp) (addr : Nat) (hid : d.nextConnId < 65536) (hlim : d.streams.length < 32768) :
    (d.getNextFreeConnId addr).hasKey { addr := addr, id := (d.getNextFreeConnId addr).nextConnId } = false ∧
    (d.getNextFreeConnId addr).streams = d.streams := by
  obtain ⟨j, hj, h1, h2, h3, h4⟩ := loop_spec 32768 d addr hid
  refine ⟨?_, h2⟩
  by_cases hlt : j < 32768
  · exact h4 hlt
  · -- all 32768 ids of that parity are keys of `addr`: more keys than connections
    exfalso
    have hj' : j = 32768 := by omega
    subst hj'
    have hnd := visited_nodup d.nextConnId 32768 (Nat.le_refl _)
    have hkeys : ((visited d.nextConnId 32768).map (fun id => ({ addr := addr, id := id } : Key))).Nodup := by
      refine List.pairwise_map.2 (List.Pairwise.imp ?_ hnd)
      intro a b hab hk
      exact hab (by simpa using hk)
    have hsub : (visited d.nextConnId 32768).map (fun id => ({ addr := addr, id := id } : Key)) ⊆ d.keys := by
      intro k hk
      simp only [visited, List.mem_map, List.mem_range] at hk
      obtain ⟨id, ⟨i, hi, rfl⟩, rfl⟩ := hk
      have := h3 i hi
      simpa [Disp.hasKey] using this
    have := List.Nodup.length_le_of_subset hkeys hsub
    simp only [List.length_map, visited, List.length_range, keys] at this
    omega

/-! ### Non-vacuity: a concrete history in which two peers connect with the same connection id -/

def syn (cid seq : Nat) : List Nat := Disp.ser (Disp.synHeader cid seq)

example :
    let d0 : Disp := { maxActive := 2, accChan := [{ id := 1 }, { id := 2 }, { id := 3 }] }
    let d := run d0 [.datagram 7 (syn 5 100), .datagram 8 (syn 5 200), .datagram 9 (syn 5 300)]
    d.keys = [{ addr := 7, id := 6 }, { addr := 8, id := 6 }] ∧ d.syns.length = 1 := by
  decide +kernel

end UtpVerif.Props.C12
