import UtpVerif.Model.Rx
import UtpVerif.Gen.Fns
import UtpVerif.Lemmas.Rx
import UtpVerif.Lemmas.Wire
/-!
# C04 — receiver honesty: acknowledgements and advertised window never overstate

Component level (`stream_rx.rs`), for every arrival order, payload size, reader behaviour and
buffer configuration.  The acknowledgement number the connection emits is
`last_consumed = initial + Σ sequence_numbers` returned by `add_remove` (glue in
`stream_dispatch.rs:1253-1274`, modelled in the connection layer); here it is shown what those
returned counts are.
-/
namespace UtpVerif.Props.C04
open UtpVerif.Model UtpVerif.Model.Rx UtpVerif.Lemmas.Rx UtpVerif.Lemmas.Wire

def qBytes (q : List UserMsg) : Nat := (q.map UserMsg.lenBytes).sum

/-- Invariant of the receive side that holds at every program point (also inside `flush`). -/
structure RxInv0 (r : Rx) : Prop where
  ooq : OoqInv r.ooq
  qbytes : r.qLenBytes = qBytes r.queue
  within : r.qLenBytes ≤ r.qCapacity

/-- Invariant between calls: additionally the remembered window is not larger than the free
space of the reader's queue. -/
structure RxInv (r : Rx) : Prop extends RxInv0 r where
  window : r.lastRemainingRxWindow + r.qLenBytes ≤ r.qCapacity

theorem build_inv (maxRx maxPayload : Nat) : RxInv (Rx.build maxRx maxPayload) := by
  unfold Rx.build
  refine ⟨⟨?_, by simp [qBytes], by simp⟩, by simp⟩
  simp only
  apply new_inv
  split
  · omega
  · exact Nat.pos_of_ne_zero (by assumption)

/-- **The advertised window never exceeds the free space actually left**: what `remaining_rx_window`
reports is at most capacity − bytes queued for the reader − bytes parked in reassembly, and is 0
when the reader is gone. (`rx_window()` rounds it further *down* to a multiple of the segment size.) -/
theorem window_never_overstates (r : Rx) (h : RxInv r) :
    r.remainingRxWindow ≤ r.qCapacity - r.qLenBytes - r.ooq.lenBytes ∧
    (r.readerDropped = true → r.remainingRxWindow = 0) := by
  have := h.window
  unfold remainingRxWindow
  constructor
  · split <;> omega
  · intro hd; simp [hd]

/-- The loop of `flush` never hits the `unwrap` (never panics), keeps the invariant, hands messages to
the reader in slot order, and accounts every byte: what leaves reassembly enters the reader's queue. -/
theorem flushLoop_ok (fuel : Nat) (r : Rx) (win flushed pkts : Nat) (h : RxInv0 r) (hw : win + r.qLenBytes ≤ r.qCapacity) :
    ∃ r' win' flushed' pkts', flushLoop fuel r win flushed pkts = some (r', win', flushed', pkts') ∧ RxInv0 r' ∧
      win' + r'.qLenBytes = win + r.qLenBytes ∧ r'.qCapacity = r.qCapacity ∧
      r'.qLenBytes + r'.ooq.lenBytes = r.qLenBytes + r.ooq.lenBytes ∧
      r'.readerDropped = r.readerDropped ∧ r'.readerWaker = r.readerWaker ∧ r'.dispatcherWaker = r.dispatcherWaker ∧
      r'.maxIncomingPayload = r.maxIncomingPayload ∧ r'.vsockClosed = r.vsockClosed ∧
      r'.current = r.current ∧ r'.isEof = r.isEof ∧
      (∃ moved, r'.queue = r.queue ++ moved) := by
  induction fuel generalizing r win flushed pkts with
  | zero => exact ⟨r, win, flushed, pkts, rfl, h, rfl, rfl, rfl, rfl, rfl, rfl, rfl, rfl, rfl, rfl, [], by simp⟩
  | succ fuel ih =>
    unfold flushLoop
    have hs := sendFront_inv r.ooq win (!r.readerDropped) h.ooq
    cases hres : r.ooq.sendFrontIfFits win (!r.readerDropped) with
    | mk ooq' om =>
      rw [hres] at hs
      cases om with
      | none => exact ⟨r, win, flushed, pkts, rfl, h, rfl, rfl, rfl, rfl, rfl, rfl, rfl, rfl, rfl, rfl, [], by simp⟩
      | some m =>
        obtain ⟨hinv', hm, _⟩ := hs
        obtain ⟨_, _, hmw, _, _, _, hlb, hmle, _⟩ := hm m rfl
        simp only at hinv' hlb
        have hfit : ¬ (r.qCapacity - r.qLenBytes < m.lenBytes) := by omega
        simp only [hfit, if_false]
        have hinv2 : RxInv0 { r with ooq := ooq', queue := r.queue ++ [toUser m], qLenBytes := r.qLenBytes + m.lenBytes } := by
          refine ⟨hinv', ?_, by simp only; omega⟩
          simp only [qBytes, List.map_append, List.sum_append, List.map_cons, List.map_nil, List.sum_cons, List.sum_nil]
          have : (toUser m).lenBytes = m.lenBytes := by cases m <;> rfl
          rw [this, h.qbytes]; simp [qBytes]
        obtain ⟨r', win', fl', pk', he, hi', hw', hc', hb', hd', hrw', hdw', hmp', hvc', hcur', heof', moved, hq'⟩ :=
          ih { r with ooq := ooq', queue := r.queue ++ [toUser m], qLenBytes := r.qLenBytes + m.lenBytes }
            (win - m.lenBytes) (flushed + m.lenBytes) (pkts + 1) hinv2 (by simp only; omega)
        refine ⟨r', win', fl', pk', he, hi', by simp only at hw'; omega, hc', ?_, hd', hrw', hdw', hmp', hvc', hcur', heof',
          [toUser m] ++ moved, by rw [hq']; simp⟩
        simp only at hb'
        omega

/-- **`flush` cannot panic** (the `try_push_back(..).unwrap()` is unreachable: the reader's queue never
accepts more than its byte capacity), keeps the invariant, conserves bytes, only appends to the
reader's queue, and leaves the remembered window equal to the queue's free space. -/
theorem flush_ok (r : Rx) (h : RxInv0 r) :
    ∃ r' n ws, r.flush = some (r', n, ws) ∧ RxInv r' ∧ r'.qCapacity = r.qCapacity ∧
      r'.qLenBytes + r'.ooq.lenBytes = r.qLenBytes + r.ooq.lenBytes ∧
      r'.lastRemainingRxWindow + r'.qLenBytes = r'.qCapacity ∧
      (∃ moved, r'.queue = r.queue ++ moved) := by
  unfold Rx.flush
  dsimp only
  generalize hr1 : (if r.queueWindow - r.ooq.filledFrontBytes < r.maxIncomingPayload then { r with dispatcherWaker := true } else r) = r1
  have h1 : RxInv0 r1 ∧ r1.qCapacity = r.qCapacity ∧ r1.qLenBytes = r.qLenBytes ∧ r1.ooq = r.ooq ∧ r1.queue = r.queue := by
    rw [← hr1]; split
    · exact ⟨⟨h.ooq, h.qbytes, h.within⟩, rfl, rfl, rfl, rfl⟩
    · exact ⟨h, rfl, rfl, rfl, rfl⟩
  obtain ⟨hi1, hc1, hq1, ho1, hqq1⟩ := h1
  have hin := h.within
  have hw : r.queueWindow + r1.qLenBytes ≤ r1.qCapacity := by
    unfold Rx.queueWindow; omega
  obtain ⟨r2, win, fl, pk, he, hi2, hw2, hc2, hb2, _, _, _, _, _, _, _, moved, hq2⟩ :=
    flushLoop_ok (r1.ooq.filledFront + 1) r1 r.queueWindow 0 0 hi1 hw
  rw [he]
  simp only
  have hwin : win + r2.qLenBytes = r2.qCapacity := by
    have e1 : r.queueWindow = r.qCapacity - r.qLenBytes := rfl
    omega
  split
  · exact ⟨_, fl, _, rfl, ⟨⟨hi2.ooq, hi2.qbytes, hi2.within⟩, by simp only; omega⟩, by simp only; omega,
      by simp only; rw [ho1] at hb2; omega, by simp only; omega, moved, by simp only; rw [hq2, hqq1]⟩
  · exact ⟨_, fl, _, rfl, ⟨⟨hi2.ooq, hi2.qbytes, hi2.within⟩, by simp only; omega⟩, by simp only; omega,
      by simp only; rw [ho1] at hb2; omega, by simp only; omega, moved, by simp only; rw [hq2, hqq1]⟩

/-- `UserRx::add_remove` never panics, keeps the invariant, and reports exactly what the reassembly
queue reports. -/
theorem addRemove_ok (r : Rx) (ty : Nat) (payload : List Nat) (off : Nat) (h : RxInv r) :
    ∃ r' ws, r.addRemove ty payload off = some (r', (r.ooq.addRemove ty payload off).2, ws) ∧ RxInv r' ∧
      r'.qCapacity = r.qCapacity ∧
      r'.qLenBytes + r'.ooq.lenBytes = r.qLenBytes + (r.ooq.addRemove ty payload off).1.lenBytes := by
  unfold Rx.addRemove
  have hoi := (addRemove_inv r.ooq ty payload off h.ooq).1
  cases hres : r.ooq.addRemove ty payload off with
  | mk ooq' res =>
    rw [hres] at hoi
    simp only at hoi ⊢
    have hbase : RxInv { r with ooq := ooq' } := ⟨⟨hoi, h.qbytes, h.within⟩, h.window⟩
    cases res with
    | consumed seqs b =>
      simp only
      split
      · obtain ⟨r2, n, ws, he, hi2, hc2, hb2, _, _⟩ := flush_ok { r with ooq := ooq' } hbase.toRxInv0
        rw [he]
        exact ⟨r2, ws, rfl, hi2, hc2, hb2⟩
      · exact ⟨_, [], rfl, hbase, rfl, rfl⟩
    | _ => exact ⟨_, [], rfl, hbase, rfl, rfl⟩

/-- The read loop only pops whole messages from the front of the reader's queue and keeps the invariant. -/
theorem readLoop_inv (fuel : Nat) (r : Rx) (room : Nat) (out : List Nat) (h : RxInv r) :
    RxInv (readLoop fuel r room out).1 ∧ (readLoop fuel r room out).1.qCapacity = r.qCapacity ∧
    (readLoop fuel r room out).1.ooq = r.ooq ∧
    (readLoop fuel r room out).1.lastRemainingRxWindow = r.lastRemainingRxWindow ∧
    (readLoop fuel r room out).1.qLenBytes ≤ r.qLenBytes ∧
    (∃ popped, r.queue = popped ++ (readLoop fuel r room out).1.queue) := by
  induction fuel generalizing r room out with
  | zero => exact ⟨h, rfl, rfl, rfl, Nat.le_refl _, [], rfl⟩
  | succ fuel ih =>
    unfold readLoop
    split
    · exact ⟨h, rfl, rfl, rfl, Nat.le_refl _, [], rfl⟩
    · split
      · dsimp only
        split
        · exact ⟨h, rfl, rfl, rfl, Nat.le_refl _, [], rfl⟩
        · exact ih _ _ _ ⟨⟨h.ooq, h.qbytes, h.within⟩, h.window⟩
      · split
        · exact ⟨h, rfl, rfl, rfl, Nat.le_refl _, [], rfl⟩
        · split
          · rename_i m q' hq
            have hqb : r.qLenBytes = m.lenBytes + qBytes q' := by
              rw [h.qbytes, hq]; simp [qBytes]
            have hpop : RxInv { r with queue := q', qLenBytes := r.qLenBytes - m.lenBytes } :=
              ⟨⟨h.ooq, by simp only; omega, by simp only; have := h.within; omega⟩,
               by simp only; have := h.window; omega⟩
            dsimp only
            split
            · exact ⟨⟨⟨hpop.ooq, hpop.qbytes, hpop.within⟩, hpop.window⟩, rfl, rfl, rfl, by simp only; omega, by rw [hq]; exact ⟨[_], rfl⟩⟩
            · rename_i p
              obtain ⟨i1, i2, i3, i4, i5, popped, i6⟩ :=
                ih { r with queue := q', qLenBytes := r.qLenBytes - UserMsg.lenBytes (.payload p), current := some (p, 0) } room out
                  ⟨⟨hpop.ooq, hpop.qbytes, hpop.within⟩, hpop.window⟩
              exact ⟨i1, i2, i3, i4, by simp only at i5; omega, UserMsg.payload p :: popped,
                by rw [hq]; simp only at i6; exact congrArg (UserMsg.payload p :: ·) i6⟩
            · exact ⟨hpop, rfl, rfl, rfl, by simp only; omega, by rw [hq]; exact ⟨[_], rfl⟩⟩
          · split
            · exact ⟨h, rfl, rfl, rfl, Nat.le_refl _, [], rfl⟩
            · exact ⟨⟨⟨h.ooq, h.qbytes, h.within⟩, h.window⟩, rfl, rfl, rfl, Nat.le_refl _, [], rfl⟩

theorem pollRead_inv (r : Rx) (n : Nat) (h : RxInv r) :
    RxInv (r.pollRead n).1 ∧ (r.pollRead n).1.qCapacity = r.qCapacity ∧ (r.pollRead n).1.ooq = r.ooq := by
  unfold Rx.pollRead
  obtain ⟨i1, i2, i3, i4, i5, _⟩ := readLoop_inv (2 * (r.queue.length + 2) + 1) r n [] h
  generalize readLoop (2 * (r.queue.length + 2) + 1) r n [] = res at *
  obtain ⟨r1, out, ex⟩ := res
  simp only at i1 i2 i3 i4 i5 ⊢
  repeat' split
  all_goals first
    | exact ⟨i1, i2, i3⟩
    | exact ⟨⟨⟨i1.ooq, i1.qbytes, i1.within⟩, i1.window⟩, i2, i3⟩

/-- Operations on the receive side, as the connection task and the application perform them. -/
inductive Op where
  | arrive (ty : Nat) (payload : List Nat) (offset : Nat)   -- any type, any payload, any offset
  | flush
  | read (n : Nat)
  | dropReader
  | enqueueError (msg : String)
  | markClosed

/-- One step; `none` would be a panic of the real code. -/
def step (r : Rx) : Op → Option Rx
  | .arrive ty p off => (r.addRemove ty p off).map (·.1)
  | .flush => r.flush.map (·.1)
  | .read n => some (r.pollRead n).1
  | .dropReader => some r.dropReader.1
  | .enqueueError m => some (r.enqueueError m).1
  | .markClosed => some r.markVsockClosed.1

def run : Rx → List Op → Option Rx
  | r, [] => some r
  | r, op :: ops => match step r op with
    | none => none
    | some r' => run r' ops

theorem step_ok (r : Rx) (op : Op) (h : RxInv r) : ∃ r', step r op = some r' ∧ RxInv r' ∧ r'.qCapacity = r.qCapacity := by
  cases op with
  | arrive ty p off =>
    obtain ⟨r', ws, he, hi, hc, _⟩ := addRemove_ok r ty p off h
    exact ⟨r', by simp [step, he], hi, hc⟩
  | flush =>
    obtain ⟨r', n, ws, he, hi, hc, _⟩ := flush_ok r h.toRxInv0
    exact ⟨r', by simp [step, he], hi, hc⟩
  | read n => exact ⟨_, rfl, (pollRead_inv r n h).1, (pollRead_inv r n h).2.1⟩
  | dropReader =>
    refine ⟨_, rfl, ?_, ?_⟩ <;> unfold Rx.dropReader <;> split
    all_goals first | rfl | exact ⟨⟨h.ooq, h.qbytes, h.within⟩, h.window⟩
  | enqueueError m =>
    have hq : qBytes (r.queue ++ [UserMsg.error m]) = qBytes r.queue := by simp [qBytes, UserMsg.lenBytes]
    refine ⟨_, rfl, ?_, ?_⟩ <;> unfold Rx.enqueueError <;> dsimp only <;> split
    all_goals first | rfl | exact ⟨⟨h.ooq, by simp only; rw [hq]; exact h.qbytes, h.within⟩, h.window⟩
  | markClosed =>
    refine ⟨_, rfl, ?_, ?_⟩ <;> unfold Rx.markVsockClosed <;> repeat' split
    all_goals first | rfl | exact h | exact ⟨⟨h.ooq, h.qbytes, h.within⟩, h.window⟩

/-- **For every arrival order, payload size, reader behaviour and buffer configuration**: the real
code never panics on the receive side, the bytes queued for the reader never exceed the configured
buffer, and the advertised window never exceeds capacity − queued − parked. -/
theorem receive_side_safe (maxRx maxPayload : Nat) (ops : List Op) :
    ∃ r, run (Rx.build maxRx maxPayload) ops = some r ∧
      r.qLenBytes ≤ maxRx ∧ r.remainingRxWindow ≤ maxRx - r.qLenBytes - r.ooq.lenBytes ∧
      (r.readerDropped = true → r.remainingRxWindow = 0) := by
  have key : ∀ r0, RxInv r0 → ∃ r, run r0 ops = some r ∧ RxInv r ∧ r.qCapacity = r0.qCapacity := by
    induction ops with
    | nil => intro r0 h; exact ⟨r0, rfl, h, rfl⟩
    | cons op t ih =>
      intro r0 h
      obtain ⟨r1, he, hi, hc⟩ := step_ok r0 op h
      obtain ⟨r2, he2, hi2, hc2⟩ := ih r1 hi
      exact ⟨r2, by simp [run, he, he2], hi2, by omega⟩
  obtain ⟨r, he, hi, hc⟩ := key _ (build_inv maxRx maxPayload)
  have hcap : r.qCapacity = maxRx := by rw [hc]; rfl
  have hw := window_never_overstates r hi
  exact ⟨r, he, by have := hi.within; omega, by rw [← hcap]; exact hw.1, hw.2⟩

/-- **What `add_remove` reports as consumed is exactly the run of slots that became contiguous**:
afterwards slots `[old front, old front + n)` are all occupied and the next slot is a hole. Since the
connection adds `n` to the acknowledgement number, it equals the highest sequence number received and
stored in order — never more (the hole), never less (the run). -/
theorem consumed_is_contiguous_run (q : Ooq) (ty : Nat) (payload : List Nat) (off n b : Nat) (h : OoqInv q)
    (hr : (q.addRemove ty payload off).2 = .consumed n b) :
    let q' := (q.addRemove ty payload off).1
    q'.filledFront = q.filledFront + n ∧
    (∀ k, k < q'.filledFront → ∀ m, q'.data[k]? = some m → m.isDefault = false) ∧
    (∀ m, q'.data[q'.filledFront]? = some m → m.isDefault = true) := by
  have hinv := (addRemove_inv q ty payload off h).1
  refine ⟨?_, hinv.front_full, hinv.hole⟩
  unfold Ooq.addRemove at hr ⊢
  cases hc : q.classify ty payload off <;> rw [hc] at hr <;> simp only at hr ⊢
  all_goals first | (simp at hr; done) | skip
  simp only [AddRemove.consumed.injEq] at hr
  unfold Ooq.store at hr ⊢
  simp only at hr ⊢
  omega

/-- The acknowledgement position never moves backwards on arrivals: `filled_front` only grows
(it shrinks only by handing the front slot to the reader, which does not change the ack number). -/
theorem front_monotone (q : Ooq) (ty : Nat) (payload : List Nat) (off : Nat) :
    q.filledFront ≤ (q.addRemove ty payload off).1.filledFront := by
  unfold Ooq.addRemove
  cases q.classify ty payload off <;> simp only [Nat.le_refl]
  unfold Ooq.store; simp only; omega

/-- **Acknowledged data is never discarded**: the only operation that removes an occupied slot is
`send_front_if_fits`, which hands exactly that message (unaltered) to the reader's queue. -/
theorem acked_data_only_leaves_to_reader (q : Ooq) (win : Nat) (acc : Bool) (h : OoqInv q) (m : OoqMsg)
    (hm : (q.sendFrontIfFits win acc).2 = some m) :
    q.data.head? = some m ∧ (q.sendFrontIfFits win acc).1.data = q.data.tail ++ [OoqMsg.default] := by
  obtain ⟨_, hs, _⟩ := sendFront_inv q win acc h
  obtain ⟨h1, _, _, _, _, _, _, _, h9⟩ := hs m hm
  exact ⟨h1, h9⟩

/-- **Selective-ACK bits are set exactly for packets held out of order**: bit `i` (i < 64) of the
emitted SACK is 1 iff the slot `filled_front + 1 + i` is occupied, i.e. iff sequence number
`ack_nr + 2 + i` is held. -/
theorem sack_bits_exact (q : Ooq) (s : Sack) (hs : q.selectiveAck = some s) (i : Nat) (hi : i < 64) :
    s.bit i = true ↔ ∃ m, q.data[q.filledFront + 1 + i]? = some m ∧ m.isDefault = false := by
  unfold Ooq.selectiveAck at hs
  split at hs
  · simp at hs
  · dsimp only at hs
    split at hs
    · simp at hs
    · simp only [Option.some.injEq] at hs
      subst hs
      rw [ofIndices_bit _ i hi]
      have := mem_takeWhile_idxsOf (q.data.drop (q.filledFront + 1)) 0 Gen.SACK_DEPTH i
      unfold idxsOf at this
      rw [this]
      have hD : Gen.SACK_DEPTH = 64 := by decide
      simp only [Nat.zero_le, hD, hi, true_and, Nat.sub_zero, List.getElem?_drop]

-- Non-vacuity: a concrete out-of-order history reaches a state with a hole, a parked packet and a SACK.
example :
    (run (Rx.build 16 4) [.arrive 0 [1, 2] 1, .arrive 0 [3] 3, .flush, .arrive 0 [9, 9, 9] 0, .flush, .read 2]).map
      (fun r => (r.remainingRxWindow, r.ooq.filledFront, r.queue.length, r.ooq.selectiveAck.map (·.asBytes)))
    = some (10, 0, 1, some [1, 0, 0, 0, 0, 0, 0, 0]) := by decide


/-! ### Tie 1b: regenerated definition (see DESIGN 2) -/

/-- `MsgQueue::window()` (stream_rx.rs): free space of the reader's queue. -/
theorem generated_msg_queue_window (r : Rx) : UtpVerif.Gen.Fns.msgQueueWindow r.qCapacity r.qLenBytes = r.queueWindow := rfl

end UtpVerif.Props.C04
