import UtpVerif.Model.VSock
import UtpVerif.Lemmas.Segments
import UtpVerif.Lemmas.Rx
import UtpVerif.Props.C04
import UtpVerif.Props.C11
/-!
# C10 — arbitrary datagrams never crash, wedge or cross-contaminate the socket

Component level: for *every* header / byte string and every state satisfying the component invariant the
operation returns neither a panic nor a `Bug*` error and re-establishes the invariant.  The connection-level
statement ("`poll` never ends in `Bug*`") is validated by the lockstep run with a hostile peer stream and the
implementation-side `bug_errors` oracle; the per-connection `UnboundedReceiver` has no bound in the code and
is an assumption (DESIGN §5 C10).
-/
namespace UtpVerif.Props.C10
open UtpVerif.Model UtpVerif.Lemmas.Segments UtpVerif.Lemmas.Rx

/-- The datagram parser is a total function returning `Option`: for every byte string it either rejects
or returns a header and a header size within the datagram (no index is read beyond the checked length:
the fixed fields after the `len < 20` check, the chain through pattern matching). -/
theorem parser_total_and_bounded (buf : List Nat) (h : Header) (n : Nat)
    (hd : Header.deserialize buf = some (h, n)) : 20 ≤ n ∧ n ≤ buf.length := by
  obtain ⟨h20, _, _, k, hc, hn⟩ := (C11.deserialize_accepts_iff buf n).mp ⟨h, hd⟩
  refine ⟨by omega, ?_⟩
  have : ∀ id l m, C11.Chain id l m → m ≤ l.length := by
    intro id l m hch
    induction hch with
    | done => simp
    | ext id next len rest n _ hlen _ ih => simp only [List.length_cons, List.length_drop] at ih ⊢; omega
  have := this _ _ _ hc
  simp only [List.length_drop] at this
  omega

/-- **Any acknowledgement header** (any `ack_nr`, any selective-ACK bytes of any length) leaves the TX
segment queue consistent and cannot make `remove_up_to_ack` panic (`len_bytes -=` cannot underflow). -/
theorem any_ack_is_safe (s : Segments) (now ackNr : Nat) (sackBytes : Option (List Nat)) (h : SInv s) (hu : s.sndUna < 65536) :
    ∃ s' r, s.removeUpToAck now ackNr (sackBytes.map Sack.deserialize) = some (s', r) ∧ SInv s' ∧ s'.sndUna < 65536 :=
  let ⟨s', r, _, h1, h2, _, _, _, _, _, _, h9, _⟩ := removeUpToAck_ok s now ackNr _ h hu
  ⟨s', r, h1, h2, h9⟩

/-- **Any data/FIN packet at any offset** leaves the reassembly queue consistent, never reports the
internal `BugAssemblerMissingSlot`, and `flush` cannot panic afterwards. -/
theorem any_arrival_is_safe (r : Rx) (ty : Nat) (payload : List Nat) (off : Nat) (h : C04.RxInv r) :
    ∃ r' ws, r.addRemove ty payload off = some (r', (r.ooq.addRemove ty payload off).2, ws) ∧ C04.RxInv r' ∧
      (r.ooq.addRemove ty payload off).2 ≠ .bugMissingSlot :=
  let ⟨r', ws, h1, h2, _⟩ := C04.addRemove_ok r ty payload off h
  ⟨r', ws, h1, h2, (addRemove_inv r.ooq ty payload off h.ooq).2⟩

/-- The only other `Bug*` the reassembly path can return is for a packet type other than DATA/FIN, which
the connection never passes to it (`process_incoming_message` calls `add_remove` only in its `ST_DATA`
and `ST_FIN` arms). -/
theorem arrival_bug_only_for_foreign_types (q : Ooq) (ty : Nat) (payload : List Nat) (off : Nat)
    (hty : ty = Gen.TYPE_ST_DATA ∨ ty = Gen.TYPE_ST_FIN) : (q.addRemove ty payload off).2 ≠ .bugInvalidMessage := by
  have hc : q.classify ty payload off ≠ .bugInvalidMessage := by
    unfold Ooq.classify
    have hno : ¬ (ty ≠ Gen.TYPE_ST_DATA ∧ ty ≠ Gen.TYPE_ST_FIN) := by
      rcases hty with h | h <;> simp [h]
    simp only [hno, if_false]
    repeat' split
    all_goals simp
  unfold Ooq.addRemove
  cases hcl : q.classify ty payload off <;> simp
  exact hc hcl

/-- Sending never panics on a consistent queue: `iter_mut_for_sending` (`checked_sub().unwrap()`) and
both probe pops (`-=` underflow) are safe. -/
theorem send_side_iteration_safe (s : Segments) (start : Option Nat) (h : SInv s) :
    (s.iterForSending start).isSome ∧ (∀ q, (s.popMtuProbe q).isSome) ∧ (∀ t m, (s.popExpiredMtuProbe t m).isSome) := by
  refine ⟨?_, ?_, ?_⟩
  · obtain ⟨vs, hv, _⟩ := iterForSending_ok s start h; simp [hv]
  · intro q; obtain ⟨s', b, hv, _⟩ := popMtuProbe_ok s q h; simp [hv]
  · intro t m; obtain ⟨s', r, hv, _⟩ := popExpired_ok s t m h; simp [hv]

/-- Packets illegal in the current state never produce a `Bug*` error in the transition table, except in
`SynReceived` — which is left before any packet is read (the SYN-ACK is sent, or the poll returns Pending,
before `process_all_incoming_messages`). -/
theorem table_never_bugs (v : VSock) (hdr : Header) (hs : v.state ≠ .synReceived) :
    ∀ e v', v.stateGate hdr = .fail e v' → e = .stResetReceived := by
  intro e v' hg
  unfold VSock.stateGate at hg
  cases hst : v.state <;> simp only [hst] at hg hs
  all_goals (first | (exact absurd rfl hs) | skip)
  all_goals
    repeat' split at hg
    all_goals (first | (simp at hg; done) | (simp only [VSock.Gate.fail.injEq] at hg; exact hg.1.symm))

end UtpVerif.Props.C10
