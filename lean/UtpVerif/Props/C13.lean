import UtpVerif.Lemmas.Sock
/-!
# C13 — connect/accept pair up in order, with a bounded backlog

Theorems about the dispatcher model (`Model/Sock.lean`) for every state and every event.
-/
namespace UtpVerif.Props.C13
open UtpVerif.Model UtpVerif.Model.Disp UtpVerif.Gen

/-- The property text's numbers are the crate's numbers (regenerated constants). -/
theorem constants_pinned :
    ACCEPT_QUEUE_MAX_SYNS = 32 ∧ ACCEPT_QUEUE_MAX_ACCEPTORS = 32 ∧ MAX_CONNECTING_PER_ADDR = 4 := by decide

/-! ### The backlog is a bounded FIFO queue -/

/-- what `on_syn` does to the two queues -/
theorem onSyn_queues (d : Disp) (remote : Nat) (h : Header) :
    let s : Syn := { remote := remote, h := h }
    ((d.onSyn remote h).1.syns = d.syns ∨
      ((d.onSyn remote h).1.syns = d.syns ++ [s] ∧ d.syns.length < ACCEPT_QUEUE_MAX_SYNS)) ∧
    Suffix (d.onSyn remote h).1.accQ d.accQ := by
  intro s
  unfold onSyn
  have key : ∀ r : Disp × Option Syn × List Eff, r.1.syns = d.syns → Suffix r.1.accQ d.accQ → (∀ s', r.2.1 = some s' → s' = s) →
      let out := (match r with
        | (d, none, effs) => (d, effs)
        | (d, some s, effs) =>
          if d.syns.length < ACCEPT_QUEUE_MAX_SYNS then ({ d with syns := d.syns ++ [s] }, effs)
          else
            match d.sendMode with
            | .ok => (d, effs ++ [Eff.sent s.remote (ser (rstHeader s))])
            | _ => (d, effs))
      ((out.1.syns = d.syns ∨ (out.1.syns = d.syns ++ [s] ∧ d.syns.length < ACCEPT_QUEUE_MAX_SYNS)) ∧ Suffix out.1.accQ d.accQ) := by
    intro r h1 h2 h3
    obtain ⟨d', o, e⟩ := r
    cases o with
    | none => exact ⟨Or.inl h1, h2⟩
    | some s' =>
      have hs' : s' = s := h3 s' rfl
      dsimp only
      split
      · rename_i hl
        refine ⟨Or.inr ⟨?_, ?_⟩, h2⟩
        · show d'.syns ++ [s'] = d.syns ++ [s]
          rw [show d'.syns = d.syns from h1, hs']
        · rw [← show d'.syns = d.syns from h1]; exact hl
      · split <;> exact ⟨Or.inl h1, h2⟩
  apply key
  · split
    · exact (onSynLoop_fifo _ _ _ _).1
    · rfl
  · split
    · exact (onSynLoop_fifo _ _ _ _).2.1
    · exact Suffix.refl _
  · split
    · exact (onSynLoop_fifo _ _ _ _).2.2
    · intro s' hs'; simp at hs'; exact hs'.symm

theorem nextFreeLoop_syns (fuel : Nat) (d : Disp) (addr : Nat) : (nextFreeConnIdLoop fuel d addr).syns = d.syns := by
  induction fuel generalizing d with
  | zero => rfl
  | succ n ih =>
    unfold nextFreeConnIdLoop
    split
    · exact ih _
    · rfl

/-- Only `on_syn` and the clean-up touch the queues. -/
theorem handle_syns (d : Disp) (ev : Event) :
    (d.handle ev).1.syns = d.syns ∨
    (∃ s, (d.handle ev).1.syns = d.syns ++ [s] ∧ d.syns.length < ACCEPT_QUEUE_MAX_SYNS) := by
  cases ev with
  | idle => exact Or.inl rfl
  | acceptor =>
    simp only [handle]
    split <;> exact Or.inl rfl
  | control c =>
    left
    cases c with
    | connectRequest addr token =>
      simp only [handle, onControl]
      split
      · rfl
      · have h1 : (d.getNextFreeConnId addr).syns = d.syns := nextFreeLoop_syns _ _ _
        have h2 : (d.getNextFreeConnId addr).random.2.syns = d.syns := by
          rw [← h1]; unfold random; split <;> rfl
        split
        · exact h2
        · exact h2
        · split
          · show (setSlots _ _ _).syns = _
            unfold setSlots; exact h2
          · dsimp only
            unfold setSlots; exact h2
    | connectDropped addr token =>
      simp only [handle, onControl]
      split
      · rfl
      · split
        · rfl
        · unfold setSlots; split <;> rfl
    | shutdown k o =>
      simp only [handle, onControl]
      split
      · rfl
      · split <;> rfl
  | datagram addr bytes =>
    simp only [handle]
    split
    · exact Or.inl rfl
    · rename_i h p hdes
      unfold onRecv
      dsimp only
      split
      · split
        · exact Or.inl rfl
        · exact Or.inl rfl
      · split
        · left
          unfold onMaybeConnectAck
          split
          · rfl
          · split
            · rfl
            · split
              · rfl
              · dsimp only
                split <;> split <;> (unfold setSlots; rfl)
        · split
          · rcases (onSyn_queues d addr h).1 with h1 | ⟨h1, h2⟩
            · exact Or.inl h1
            · exact Or.inr ⟨_, h1, h2⟩
          · exact Or.inl rfl

/-- **Pending connection requests are kept in arrival order**: in one loop iteration requests leave the
backlog only from its front (`drop n`), and at most one new request enters, at the back, and only while
fewer than 32 are waiting. Nothing is ever inserted in the middle or overtakes. -/
theorem backlog_is_fifo (d : Disp) (ev : Event) :
    ∃ n extra, (d.runOnce ev).1.syns = d.syns.drop n ++ extra ∧ extra.length ≤ 1 ∧
      (extra ≠ [] → (d.syns.drop n).length < ACCEPT_QUEUE_MAX_SYNS) := by
  unfold runOnce
  obtain ⟨n, hn⟩ := (cleanup_fifo d).1
  rcases handle_syns d.cleanupAcceptQueue.1 ev with h | ⟨s, h, hl⟩
  · exact ⟨n, [], by rw [h, hn]; simp, by simp, fun h => absurd rfl h⟩
  · exact ⟨n, [s], by rw [h, hn], by simp, fun _ => by rw [← hn]; exact hl⟩

/-- **At most a fixed backlog of unaccepted requests is retained**: never more than 32. -/
theorem backlog_bounded (d : Disp) (evs : List Event) (h : d.syns.length ≤ ACCEPT_QUEUE_MAX_SYNS) :
    (evs.foldl (fun d ev => (d.runOnce ev).1) d).syns.length ≤ ACCEPT_QUEUE_MAX_SYNS := by
  induction evs generalizing d with
  | nil => exact h
  | cons ev evs ih =>
    apply ih
    obtain ⟨n, extra, h1, h2, h3⟩ := backlog_is_fifo d ev
    rw [h1, List.length_append]
    cases extra with
    | nil => simp; omega
    | cons x xs =>
      have := h3 (by simp)
      simp only [List.length_cons] at h2 ⊢
      have : xs.length = 0 := by omega
      omega

/-- **A request is handed to an accept call directly only when no earlier request is waiting**:
if SYNs are cached when a SYN arrives, the new one is cached behind them (or refused), never matched. -/
theorem new_syn_never_overtakes (d : Disp) (remote : Nat) (h : Header) (hne : d.syns ≠ []) :
    (d.onSyn remote h).1.streams = d.streams ∧
    ((d.onSyn remote h).1.syns = d.syns ++ [{ remote := remote, h := h }] ∨ (d.onSyn remote h).1.syns = d.syns) := by
  have he : d.syns.isEmpty = false := by
    cases hs : d.syns with
    | nil => exact absurd hs hne
    | cons _ _ => rfl
  unfold onSyn
  simp only [he, Bool.false_eq_true, if_false]
  split
  · exact ⟨rfl, Or.inl rfl⟩
  · split <;> exact ⟨rfl, Or.inr rfl⟩

/-- **Accept calls are served in the order they were made**: acceptors leave the queue (cached one first,
then the channel) only from its front. -/
theorem acceptors_are_fifo (d : Disp) :
    Suffix d.cleanupAcceptQueue.1.accQ d.accQ ∧ ∀ remote h, Suffix (d.onSyn remote h).1.accQ d.accQ :=
  ⟨(cleanup_fifo d).2, fun remote h => (onSyn_queues d remote h).2⟩

/-- **The excess is refused with a reset**: `on_syn` answers with a RESET exactly when the request could not
be matched and 32 requests are already waiting (transport permitting); the RESET names the SYN's connection
id and acknowledges its sequence number. -/
theorem reset_iff_backlog_full (d : Disp) (remote : Nat) (h : Header) (hne : d.syns ≠ []) (hok : d.sendMode = .ok) :
    (d.onSyn remote h).2 = (if d.syns.length < ACCEPT_QUEUE_MAX_SYNS then []
      else [Eff.sent remote (ser { htype := TYPE_ST_RESET, connId := h.connId, ts := 0, tsDiff := 0, wnd := 0, seqNr := 0, ackNr := h.seqNr })]) := by
  have he : d.syns.isEmpty = false := by
    cases hs : d.syns with
    | nil => exact absurd hs hne
    | cons _ _ => rfl
  unfold onSyn
  simp only [he, Bool.false_eq_true, if_false]
  split
  · rfl
  · simp [hok, rstHeader]

/-! ### Per-address connecting slots -/

def occupied (s : List (Option Connecting)) : Nat := (s.filter (·.isSome)).length

theorem slotInsert_some (s : List (Option Connecting)) (c : Connecting) (s' : List (Option Connecting))
    (h : slotInsert s c = some s') : s'.length = s.length ∧ occupied s' = occupied s + 1 := by
  induction s generalizing s' with
  | nil => simp [slotInsert] at h
  | cons x xs ih =>
    cases x with
    | none =>
      simp only [slotInsert, Option.some.injEq] at h
      subst h
      simp [occupied]
    | some y =>
      simp only [slotInsert, Option.map_eq_some_iff] at h
      obtain ⟨r, hr, rfl⟩ := h
      obtain ⟨h1, h2⟩ := ih r hr
      simp only [occupied, List.length_cons, List.filter_cons, Option.isSome_some, if_true] at *
      omega

/-- A connect is refused for lack of a slot only if all slots of that address are busy. -/
theorem slotInsert_none (s : List (Option Connecting)) (c : Connecting) (h : slotInsert s c = none) :
    occupied s = s.length := by
  induction s with
  | nil => rfl
  | cons x xs ih =>
    cases x with
    | none => simp [slotInsert] at h
    | some y =>
      simp only [slotInsert, Option.map_eq_none_iff] at h
      have := ih h
      simp only [occupied, List.length_cons, List.filter_cons, Option.isSome_some, if_true] at *
      omega

/-- **An abandoned connect releases what it reserved** (and so does a completed handshake): popping a slot
frees exactly one and keeps the others. -/
theorem slotPop_some (p : Connecting → Bool) (s : List (Option Connecting)) (c : Connecting) (s' : List (Option Connecting))
    (h : slotPop p s = some (c, s')) : p c = true ∧ s'.length = s.length ∧ occupied s' + 1 = occupied s := by
  induction s generalizing s' with
  | nil => simp [slotPop] at h
  | cons x xs ih =>
    cases x with
    | none =>
      simp only [slotPop, Option.map_eq_some_iff] at h
      obtain ⟨⟨c', r⟩, hr, he⟩ := h
      simp only [Prod.mk.injEq] at he
      obtain ⟨rfl, rfl⟩ := he
      obtain ⟨h1, h2, h3⟩ := ih r hr
      refine ⟨h1, by simp [h2], ?_⟩
      simp only [occupied, List.filter_cons] at *
      simpa using h3
    | some y =>
      simp only [slotPop] at h
      split at h
      · rename_i hp
        simp only [Option.some.injEq, Prod.mk.injEq] at h
        obtain ⟨rfl, rfl⟩ := h
        refine ⟨hp, by simp, ?_⟩
        simp [occupied]
      · simp only [Option.map_eq_some_iff] at h
        obtain ⟨⟨c', r⟩, hr, he⟩ := h
        simp only [Prod.mk.injEq] at he
        obtain ⟨rfl, rfl⟩ := he
        obtain ⟨h1, h2, h3⟩ := ih r hr
        refine ⟨h1, by simp [h2], ?_⟩
        simp only [occupied, List.filter_cons, Option.isSome_some, if_true, List.length_cons] at *
        omega

/-- `ConnectDropped` for a pending connect frees its slot: afterwards no slot of that address holds the token
(given that the token occupied one slot, as tokens are unique). -/
theorem connect_dropped_frees_slot (d : Disp) (addr token : Nat) (slots : List (Option Connecting))
    (hs : d.slotsOf addr = some slots) (c : Connecting) (slots' : List (Option Connecting))
    (hp : slotPop (·.token = token) slots = some (c, slots')) :
    (d.onControl (.connectDropped addr token)).1 = d.setSlots addr (if slotsEmpty slots' then none else some slots') ∧
    occupied slots' + 1 = occupied slots := by
  refine ⟨?_, (slotPop_some _ _ _ _ hp).2.2⟩
  simp [onControl, hs, hp]

/-! ### No starvation -/

theorem cleanupLoop_effs_prefix (fuel : Nat) (d : Disp) (effs : List Eff) :
    ∃ more, (cleanupLoop fuel d effs).2 = effs ++ more := by
  induction fuel generalizing d effs with
  | zero => exact ⟨[], by simp [cleanupLoop]⟩
  | succ n ih =>
    unfold cleanupLoop
    split
    · exact ⟨[], by simp⟩
    · dsimp only
      split
      · exact ⟨[], by simp⟩
      · split
        · rename_i d2 e _; obtain ⟨m, hm⟩ := ih d2 (effs ++ e); exact ⟨e ++ m, by rw [hm, List.append_assoc]⟩
        · rename_i a' d2 e _; obtain ⟨m, hm⟩ := ih { d2 with nextAcceptor := some a' } (effs ++ e); exact ⟨e ++ m, by rw [hm, List.append_assoc]⟩
        · rename_i s' d2 e _; obtain ⟨m, hm⟩ := ih { d2 with syns := s' :: d2.syns } (effs ++ e); exact ⟨e ++ m, by rw [hm, List.append_assoc]⟩
        · rename_i s' a' d2 e _; exact ⟨e, rfl⟩

/-- **Later calls are not starved**: when the oldest cached request is valid (its key is free), the table has room
and the accept call at the head of the queue is alive, the very next loop iteration hands that request to that
call - whatever else is queued behind them. -/
theorem cleanup_serves_oldest_request_first (d : Disp) (s : Syn) (rest : List Syn) (a : Acceptor)
    (hs : d.syns = s :: rest) (ha : d.nextAcceptor = some a) (hnf : d.streamsFull = false)
    (hk : d.hasKey { addr := s.remote, id := w16 (s.h.connId + 1) } = false)
    (halive : d.deadAcc.contains a.id = false) :
    ∃ inst more, d.cleanupAcceptQueue.2 =
      Eff.accepted a.id { addr := s.remote, id := w16 (s.h.connId + 1) } s.remote inst :: more := by
  unfold cleanupAcceptQueue
  simp only [hnf, Bool.false_eq_true, if_false]
  have hfuel : d.syns.length + d.acceptorsWaiting + 1 = (rest.length + d.acceptorsWaiting + 1) + 1 := by
    rw [hs]; simp only [List.length_cons]; omega
  rw [hfuel]
  unfold cleanupLoop
  simp only [hs]
  have hta : ({ d with syns := rest } : Disp).tryNextAcceptor = (some a, { ({ d with syns := rest } : Disp) with nextAcceptor := none }) := by
    simp [tryNextAcceptor, ha]
  rw [hta]
  dsimp only
  have hrand : ∀ x : Disp, x.random.2.deadAcc = x.deadAcc ∧ x.random.2.streams = x.streams ∧ x.random.2.nextInst = x.nextInst := by
    intro x; unfold random; split <;> exact ⟨rfl, rfl, rfl⟩
  have hm : ∃ d2 inst, ({ ({ d with syns := rest } : Disp) with nextAcceptor := none } : Disp).matchSynWithAccept s a =
      (.matched, d2, [Eff.accepted a.id { addr := s.remote, id := w16 (s.h.connId + 1) } s.remote inst]) := by
    unfold matchSynWithAccept
    have hf' : ({ ({ d with syns := rest } : Disp) with nextAcceptor := none } : Disp).streamsFull = false := hnf
    have hk' : ({ ({ d with syns := rest } : Disp) with nextAcceptor := none } : Disp).hasKey { addr := s.remote, id := w16 (s.h.connId + 1) } = false := hk
    simp only [hf', Bool.false_eq_true, if_false, hk']
    generalize hr : ({ ({ d with syns := rest } : Disp) with nextAcceptor := none } : Disp).random = r
    obtain ⟨sq, d'⟩ := r
    have := hrand ({ ({ d with syns := rest } : Disp) with nextAcceptor := none } : Disp)
    rw [hr] at this
    have hd : d'.deadAcc.contains a.id = false := by rw [this.1]; exact halive
    simp only [hd, Bool.false_eq_true, if_false]
    exact ⟨_, _, rfl⟩
  obtain ⟨d2, inst, hm⟩ := hm
  rw [hm]
  obtain ⟨more, hmore⟩ := cleanupLoop_effs_prefix (rest.length + d.acceptorsWaiting + 1) d2 ([] ++ [Eff.accepted a.id { addr := s.remote, id := w16 (s.h.connId + 1) } s.remote inst])
  exact ⟨inst, more, by rw [hmore]; rfl⟩

/-! ### One stream per handshake -/

/-- **A duplicate of a SYN whose connection is live creates no second stream**: the acceptor is kept for the
next request, the table is untouched. -/
theorem duplicate_syn_creates_no_stream (d : Disp) (s : Syn) (a : Acceptor) (hf : d.streamsFull = false)
    (hk : d.hasKey { addr := s.remote, id := w16 (s.h.connId + 1) } = true) :
    d.matchSynWithAccept s a = (.synInvalid a, d, []) := by
  simp [matchSynWithAccept, hf, hk]

/-- **A handshake completes at most one connect**: the `connectOk` effect of a SYN-ACK belongs to the pending
connect whose SYN it acknowledges, and that connect's slot is freed by it - a second (duplicate) SYN-ACK finds no
slot with that sequence number unless another connect owns one. -/
theorem slotPop_pred (p : Connecting → Bool) (l : List (Option Connecting)) (c : Connecting) (l' : List (Option Connecting))
    (h : slotPop p l = some (c, l')) : p c = true := by
  induction l generalizing c l' with
  | nil => simp [slotPop] at h
  | cons x xs ih =>
    cases x with
    | none =>
      simp only [slotPop, Option.map_eq_some_iff] at h
      obtain ⟨⟨c', r⟩, hr, he⟩ := h
      simp only [Prod.mk.injEq] at he
      exact he.1 ▸ ih c' r hr
    | some y =>
      simp only [slotPop] at h
      split at h
      · rename_i hpy
        simp only [Option.some.injEq, Prod.mk.injEq] at h
        exact h.1 ▸ hpy
      · simp only [Option.map_eq_some_iff] at h
        obtain ⟨⟨c', r⟩, hr, he⟩ := h
        simp only [Prod.mk.injEq] at he
        exact he.1 ▸ ih c' r hr

theorem connectOk_consumes_slot (d : Disp) (addr : Nat) (h : Header) (token : Nat) (k : Key) (inst : Nat)
    (he : Eff.connectOk token k inst ∈ (d.onMaybeConnectAck addr h).2) :
    ∃ slots c slots', d.slotsOf addr = some slots ∧ slotPop (·.seqNr = h.ackNr) slots = some (c, slots') ∧
      c.token = token ∧ c.seqNr = h.ackNr ∧ k = { addr := addr, id := h.connId } := by
  unfold onMaybeConnectAck at he
  split at he
  · simp at he
  · split at he
    · simp at he
    · rename_i slots hs
      split at he
      · simp at he
      · rename_i c slots' hp
        dsimp only at he
        have hpc := slotPop_pred _ _ _ _ hp
        split at he <;> split at he
        all_goals first
          | (simp at he; done)
          | (simp only [List.mem_singleton, Eff.connectOk.injEq] at he
             obtain ⟨rfl, rfl, _⟩ := he
             exact ⟨slots, c, slots', hs, hp, rfl, by simpa using hpc, rfl⟩)

/-! ### Non-vacuity -/

example :
    let d0 : Disp := { maxActive := 8 }
    let s1 : List Nat := ser (synHeader 5 100)
    let s2 : List Nat := ser (synHeader 7 200)
    -- two requests arrive with nobody accepting, then two accept calls: served in arrival order
    let d := [Event.datagram 3 s1, .datagram 4 s2].foldl (fun d ev => (d.runOnce ev).1) d0
    let d' := { d with accChan := [{ id := 1 }, { id := 2 }] }
    (d'.runOnce .idle).2 = [.accepted 1 { addr := 3, id := 6 } 3 0, .accepted 2 { addr := 4, id := 8 } 4 1] := by
  decide +kernel

end UtpVerif.Props.C13
