import UtpVerif.Driver.Pure
import UtpVerif.Driver.Wire
import UtpVerif.Driver.Mtu
import UtpVerif.Driver.TxRing
import UtpVerif.Driver.Rx
import UtpVerif.Driver.Segments
import UtpVerif.Driver.VSock
import UtpVerif.Driver.Cubic
import UtpVerif.Driver.Sock
/-!
Line-protocol driver: one op per input line (`<component> <op> args…`), one output line per op.
The Rust harness (`/verif/harness`) executes the same lines on the real code; `tools/check.py`
diffs the two output streams.
-/
open UtpVerif.Driver UtpVerif.Model

structure St where
  rtte : Rtte := Rtte.init
  mtu : SegSizes := SegSizes.new true 1500 3
  tx : TxRing := TxRing.new 16
  rx : RxSt := {}
  segs : Segments := Segments.new 0
  vs : VsSt := {}
  cubic : Option Cubic := none
  sock : SockSt := {}
  txPos : Nat := 0   -- bytes accepted so far (position-coded payload generator)
  txLastW : Nat := 1 -- which task's waker the write half has stored (1 = A, 2 = B)

def step (st : St) (line : String) : St × String :=
  match toks line with
  | ["nop"] => (st, "ok")
  | "seqnr" :: args => (st, stepSeqNr args)
  | "wire" :: args => (st, stepWire args)
  | "mtu" :: args => let (r, o) := stepMtu st.mtu args; ({ st with mtu := r }, o)
  | "tx" :: args =>
    let pos := if args.head? = some "new" then 0 else st.txPos
    let (r, o, lw) := stepTxRing st.tx pos st.txLastW args
    let acc := match (o.splitOn " ").head? with
      | some w => if w.startsWith "ready:" ∧ (args.head? = some "writepos" ∨ args.head? = some "writeposb") then (w.drop 6).toNat?.getD 0 else 0
      | none => 0
    ({ st with tx := r, txPos := pos + acc, txLastW := lw }, o)
  | "rx" :: args => let (r, o) := stepRx st.rx args; ({ st with rx := r }, o)
  | "seg" :: args => let (r, o) := stepSegs st.segs args; ({ st with segs := r }, o)
  | "vs" :: args => let (r, o) := stepVs st.vs args; ({ st with vs := r }, o)
  | "cubic" :: args => let (r, o) := stepCubic st.cubic args; ({ st with cubic := r }, o)
  | "sock" :: args => let (r, o) := stepSock st.sock args; ({ st with sock := r }, o)
  | "rtte" :: args => let (r, o) := stepRtte st.rtte args; ({ st with rtte := r }, o)
  | _ => (st, "bad-op")

partial def loop (h : IO.FS.Stream) (out : IO.FS.Stream) (st : St) : IO Unit := do
  let line ← h.getLine
  if line.isEmpty then return ()
  let (st', o) := step st line
  out.putStrLn o
  loop h out st'

def main : IO Unit := do
  let stdin ← IO.getStdin
  let stdout ← IO.getStdout
  loop stdin stdout {}
