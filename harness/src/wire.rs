use librqbit_utp::raw::{
    Extensions, Type, UtpHeader, ext_close_reason::LibTorrentCloseReason,
    selective_ack::SelectiveAck,
};
use librqbit_utp::verif::UtpMessage;

use crate::util::{hex_decode, hex_encode, opt};

pub fn type_num(t: Type) -> u8 {
    match t {
        Type::ST_DATA => 0,
        Type::ST_FIN => 1,
        Type::ST_STATE => 2,
        Type::ST_RESET => 3,
        Type::ST_SYN => 4,
    }
}

pub fn type_from(n: u8) -> Option<Type> {
    Some(match n {
        0 => Type::ST_DATA,
        1 => Type::ST_FIN,
        2 => Type::ST_STATE,
        3 => Type::ST_RESET,
        4 => Type::ST_SYN,
        _ => return None,
    })
}

pub fn show_sack(s: &Option<SelectiveAck>) -> String {
    match s {
        None => "none".into(),
        Some(s) => format!("{}/{}", hex_encode(s.as_bytes()), s.len()),
    }
}

pub fn show_header(h: &UtpHeader) -> String {
    format!(
        "type={} cid={} ts={} tsd={} wnd={} seq={} ack={} sack={} cr={}",
        type_num(h.htype),
        h.connection_id.0,
        h.timestamp_microseconds,
        h.timestamp_difference_microseconds,
        h.wnd_size,
        h.seq_nr.0,
        h.ack_nr.0,
        show_sack(&h.extensions.selective_ack),
        opt(h.extensions.close_reason.map(|c| c.0))
    )
}

/// `type cid ts tsd wnd seq ack sack cr`
pub fn parse_header_args(a: &[&str]) -> Option<UtpHeader> {
    if a.len() != 9 {
        return None;
    }
    let sack = if a[7] == "none" {
        None
    } else {
        Some(SelectiveAck::deserialize(&hex_decode(a[7])?))
    };
    let cr = if a[8] == "-" {
        None
    } else {
        Some(LibTorrentCloseReason(a[8].parse::<u16>().ok()?))
    };
    Some(UtpHeader {
        htype: type_from(a[0].parse().ok()?)?,
        connection_id: a[1].parse::<u16>().ok()?.into(),
        timestamp_microseconds: a[2].parse().ok()?,
        timestamp_difference_microseconds: a[3].parse().ok()?,
        wnd_size: a[4].parse().ok()?,
        seq_nr: a[5].parse::<u16>().ok()?.into(),
        ack_nr: a[6].parse::<u16>().ok()?.into(),
        extensions: Extensions {
            selective_ack: sack,
            close_reason: cr,
        },
    })
}

pub fn step_wire(args: &[&str]) -> String {
    match args {
        ["de", hx] => match hex_decode(hx) {
            Some(b) => match UtpHeader::deserialize(&b) {
                None => "none".into(),
                Some((h, n)) => format!("ok {} hsize={}", show_header(&h), n),
            },
            None => "bad-op".into(),
        },
        ["msg", hx] => match hex_decode(hx) {
            Some(b) => match UtpMessage::deserialize(&b) {
                None => "none".into(),
                Some(m) => format!("ok {} payload={}", show_header(&m.header), hex_encode(m.payload())),
            },
            None => "bad-op".into(),
        },
        ["ser", buflen, rest @ ..] => match (buflen.parse::<usize>(), parse_header_args(rest)) {
            (Ok(n), Some(h)) if n <= 1 << 20 => {
                // a dirty buffer: the result must not depend on its previous contents
                let mut buf = vec![0xa5u8; n];
                match h.serialize(&mut buf) {
                    Ok(len) => hex_encode(&buf[..len]),
                    Err(_) => "err".into(),
                }
            }
            _ => "bad-op".into(),
        },
        ["rt", hx] => match hex_decode(hx) {
            Some(b) => match UtpHeader::deserialize(&b) {
                None => "none".into(),
                Some((h, n)) => {
                    let mut buf = vec![0xa5u8; 1024];
                    match h.serialize(&mut buf) {
                        Err(_) => "err".into(),
                        Ok(len) => match UtpHeader::deserialize(&buf[..len]) {
                            None => format!("diff reparse-none first={} hsize={}", show_header(&h), n),
                            Some((h2, n2)) => {
                                if h == h2 && n2 == len {
                                    format!("same hsize={n} len={n2}")
                                } else {
                                    format!(
                                        "diff first={} hsize={} second={} hsize={} len={}",
                                        show_header(&h),
                                        n,
                                        show_header(&h2),
                                        n2,
                                        len
                                    )
                                }
                            }
                        },
                    }
                }
            },
            None => "bad-op".into(),
        },
        ["rts", buflen, rest @ ..] => match (buflen.parse::<usize>(), parse_header_args(rest)) {
            (Ok(n), Some(h)) if n <= 1 << 20 => {
                let mut buf = vec![0xa5u8; n];
                match h.serialize(&mut buf) {
                    Err(_) => "err".into(),
                    Ok(len) => match UtpHeader::deserialize(&buf[..len]) {
                        None => "diff reparse-none".into(),
                        Some((h2, n2)) => {
                            if h == h2 && n2 == len {
                                format!("same len={n2}")
                            } else {
                                format!("diff second={} hsize={} len={}", show_header(&h2), n2, len)
                            }
                        }
                    },
                }
            }
            _ => "bad-op".into(),
        },
        ["sacknew", idxs @ ..] => {
            let v: Option<Vec<usize>> = idxs.iter().map(|s| s.parse().ok()).collect();
            match v {
                Some(v) => show_sack(&Some(SelectiveAck::new(v.into_iter()))),
                None => "bad-op".into(),
            }
        }
        _ => "bad-op".into(),
    }
}
