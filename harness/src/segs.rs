use std::time::{Duration, Instant};

use librqbit_utp::raw::{Extensions, UtpHeader, selective_ack::SelectiveAck};
use librqbit_utp::verif::{PopExpiredProbe, SegmentForSending, Segments, SeqNr};

use crate::util::{b01, hex_decode, opt};

pub struct SegSt {
    pub segs: Segments,
    pub base: Instant,
}

impl SegSt {
    pub fn new(una: u16) -> Self {
        SegSt {
            segs: Segments::new(SeqNr(una)),
            base: Instant::now(),
        }
    }
    fn t(&self, ns: u64) -> Instant {
        self.base + Duration::from_nanos(ns)
    }
}

fn show_view(v: &SegmentForSending<'_>) -> String {
    format!(
        "{}:{}:{}:{}:{}:{}{}{}{}",
        v.seq_nr().0,
        v.payload_size(),
        v.payload_offset(),
        v.send_count(),
        v.retransmit_count(),
        b01(v.is_lost()),
        b01(v.is_expired()),
        b01(v.has_sacks_after_it()),
        b01(v.is_mtu_probe())
    )
}

pub fn dump(s: &mut Segments) -> String {
    let views: Vec<String> = s.iter_mut_for_sending(None).map(|v| show_view(&v)).collect();
    format!(
        "| n={} bytes={} first={} sd={} [{}]",
        s.total_len_packets(),
        s.total_len_bytes(),
        opt(s.first_seq_nr().map(|x| x.0)),
        s.sack_depth(),
        views.join(" ")
    )
}

pub fn parse_sack(a: &str) -> Option<Option<SelectiveAck>> {
    if a == "none" {
        Some(None)
    } else {
        Some(Some(SelectiveAck::deserialize(&hex_decode(a)?)))
    }
}

pub fn step_segs(s: &mut SegSt, args: &[&str]) -> String {
    let p16 = |x: &str| x.parse::<u16>().ok();
    match args {
        ["new", u] => match p16(u) {
            Some(u) => {
                *s = SegSt::new(u);
                dump(&mut s.segs)
            }
            None => "bad-op".into(),
        },
        ["enq", l, p] => match (l.parse::<usize>(), p.parse::<u8>()) {
            (Ok(l), Ok(p)) => {
                let _ = s.segs.enqueue(l, p == 1);
                format!("ok {}", dump(&mut s.segs))
            }
            _ => "bad-op".into(),
        },
        ["popprobe", q] => match p16(q) {
            Some(q) => {
                let b = s.segs.pop_mtu_probe(SeqNr(q));
                format!("{} {}", b01(b), dump(&mut s.segs))
            }
            None => "bad-op".into(),
        },
        ["popexp", t, m] => match (t.parse::<u8>(), m.parse::<usize>()) {
            (Ok(t), Ok(m)) => {
                let r = match s.segs.pop_expired_mtu_probe(t == 1, m) {
                    PopExpiredProbe::Expired {
                        rewind_to,
                        payload_size,
                    } => format!("expired:{}:{}", rewind_to.0, payload_size),
                    PopExpiredProbe::NotExpired => "notexpired".into(),
                    PopExpiredProbe::Empty => "empty".into(),
                };
                format!("{r} {}", dump(&mut s.segs))
            }
            _ => "bad-op".into(),
        },
        ["ack", now, a, sk] => match (now.parse::<u64>(), p16(a), parse_sack(sk)) {
            (Ok(now), Some(a), Some(sk)) => {
                let h = UtpHeader {
                    ack_nr: SeqNr(a),
                    extensions: Extensions {
                        selective_ack: sk,
                        ..Default::default()
                    },
                    ..Default::default()
                };
                let now = s.t(now);
                let r = s.segs.remove_up_to_ack(now, &h);
                format!(
                    "acked={} bytes={} maxp={} sacked={} sbytes={} rtt={} {}",
                    r.acked_segments_count,
                    r.acked_bytes,
                    r.max_acked_payload_size,
                    r.newly_sacked_segment_count,
                    r.newly_sacked_byte_count,
                    opt(r.new_rtt.map(|d| d.as_nanos())),
                    dump(&mut s.segs)
                )
            }
            _ => "bad-op".into(),
        },
        ["flight", l] => match p16(l) {
            Some(l) => s.segs.calc_flight_size(SeqNr(l)).to_string(),
            None => "bad-op".into(),
        },
        ["pipe", hr, hd, rtt, now] => match (p16(hr), p16(hd), rtt.parse::<u64>(), now.parse::<u64>()) {
            (Some(hr), Some(hd), Ok(rtt), Ok(now)) => {
                let now = s.t(now);
                let p = s.segs.calc_pipe(SeqNr(hr), SeqNr(hd), Duration::from_nanos(rtt), now);
                let base = s.base;
                format!(
                    "pipe={} timer={} {}",
                    p.pipe,
                    opt(p.recalc_timer.map(|t| (t - base).as_nanos())),
                    dump(&mut s.segs)
                )
            }
            _ => "bad-op".into(),
        },
        ["sent", q, now] => match (p16(q), now.parse::<u64>()) {
            (Some(q), Ok(now)) => {
                let now = s.t(now);
                let mut found = false;
                for mut v in s.segs.iter_mut_for_sending(None) {
                    if v.seq_nr().0 == q {
                        v.on_sent(now);
                        found = true;
                        break;
                    }
                }
                if found {
                    format!("ok {}", dump(&mut s.segs))
                } else {
                    "noseg".into()
                }
            }
            _ => "bad-op".into(),
        },
        ["iter", st] => {
            let start = if *st == "none" {
                Some(None)
            } else {
                p16(st).map(|x| Some(SeqNr(x)))
            };
            match start {
                None => "bad-op".into(),
                Some(start) => {
                    let views: Vec<String> =
                        s.segs.iter_mut_for_sending(start).map(|v| show_view(&v)).collect();
                    format!("[{}]", views.join(" "))
                }
            }
        }
        _ => "bad-op".into(),
    }
}
