//! Lockstep driver for one real connection state machine (`VirtualSocket`) through the
//! `VsockDriver` hook, inside a paused-clock tokio runtime whose clock is also the protocol clock.
use std::{
    net::{Ipv4Addr, Ipv6Addr, SocketAddr},
    num::NonZeroUsize,
    pin::Pin,
    sync::Arc,
    task::{Context, Poll, Waker},
    time::{Duration, Instant},
};

use librqbit_dualstack_sockets::PollSendToVectored;
use librqbit_utp::raw::UtpHeader;
use librqbit_utp::verif::{
    CongestionController, RttEstimator, StreamArgs, UtpEnvironment, UtpMessage, VsockDriver,
};
use librqbit_utp::{SocketOpts, Transport, UtpSocket, UtpStream};
use parking_lot::Mutex;
use tokio::io::{AsyncRead, AsyncWrite, ReadBuf};
use tokio::sync::mpsc::UnboundedSender;

use crate::txring::CountWaker;
use crate::util::{hex_decode, hex_encode};

// ------------------------------------------------------------------ environment

#[derive(Clone)]
pub struct TokioEnv {
    base: Instant,
    start: tokio::time::Instant,
    rnd: Arc<Mutex<u16>>,
}

impl TokioEnv {
    pub fn new() -> Self {
        let start = tokio::time::Instant::now();
        TokioEnv {
            base: start.into_std(),
            start,
            rnd: Arc::new(Mutex::new(7)),
        }
    }
    pub fn base(&self) -> Instant {
        self.base
    }
    pub fn now_ns(&self) -> u128 {
        (tokio::time::Instant::now() - self.start).as_nanos()
    }
}

impl UtpEnvironment for TokioEnv {
    fn now(&self) -> Instant {
        self.base + (tokio::time::Instant::now() - self.start)
    }
    fn copy(&self) -> Self {
        self.clone()
    }
    fn random_u16(&self) -> u16 {
        let mut g = self.rnd.lock();
        *g = g.wrapping_add(100);
        *g
    }
}

// ------------------------------------------------------------------ transport

#[derive(Clone, Copy, Debug)]
pub enum TMode {
    Ok,
    PendingAfter(usize),
    Limit(usize),
    FailAfter(usize),
}

pub struct TState {
    pub mode: TMode,
    pub sends: usize,
    pub out: Vec<Vec<u8>>,
}

#[derive(Clone)]
pub struct ScriptTransport {
    pub st: Arc<Mutex<TState>>,
    pub addr: SocketAddr,
}

impl ScriptTransport {
    fn send(&self, buf: &[u8]) -> Poll<std::io::Result<usize>> {
        let mut g = self.st.lock();
        let i = g.sends;
        g.sends += 1;
        match g.mode {
            TMode::Ok => {}
            TMode::PendingAfter(k) => {
                if i >= k {
                    return Poll::Pending;
                }
            }
            TMode::Limit(l) => {
                if buf.len() > l {
                    return Poll::Ready(Err(std::io::Error::from_raw_os_error(libc::EMSGSIZE)));
                }
            }
            TMode::FailAfter(k) => {
                if i >= k {
                    return Poll::Ready(Err(std::io::Error::other("scripted transport failure")));
                }
            }
        }
        g.out.push(buf.to_vec());
        Poll::Ready(Ok(buf.len()))
    }
}

impl Transport for ScriptTransport {
    fn recv_from<'a>(
        &'a self,
        _buf: &'a mut [u8],
    ) -> impl Future<Output = std::io::Result<(usize, SocketAddr)>> + Send + Sync + 'a {
        std::future::pending()
    }

    async fn send_to<'a>(&'a self, buf: &'a [u8], _target: SocketAddr) -> std::io::Result<usize> {
        match self.send(buf) {
            Poll::Ready(r) => r,
            Poll::Pending => Ok(0),
        }
    }

    fn poll_send_to(
        &self,
        _cx: &mut Context<'_>,
        buf: &[u8],
        _target: SocketAddr,
    ) -> Poll<std::io::Result<usize>> {
        self.send(buf)
    }

    fn bind_addr(&self) -> SocketAddr {
        self.addr
    }
}

impl PollSendToVectored for ScriptTransport {
    fn poll_send_to_vectored(
        &self,
        _cx: &mut Context<'_>,
        bufs: &[std::io::IoSlice<'_>],
        _target: SocketAddr,
    ) -> Poll<std::io::Result<usize>> {
        let mut buf = Vec::new();
        bufs.iter().for_each(|b| buf.extend_from_slice(b.as_ref()));
        self.send(&buf)
    }
}

// ------------------------------------------------------------------ congestion-controller proxy

pub struct LogCc {
    inner: Box<dyn CongestionController>,
    log: Arc<Mutex<Vec<String>>>,
}

impl std::fmt::Debug for LogCc {
    fn fmt(&self, f: &mut std::fmt::Formatter<'_>) -> std::fmt::Result {
        self.inner.fmt(f)
    }
}

impl CongestionController for LogCc {
    fn window(&self) -> usize {
        let v = self.inner.window();
        self.log.lock().push(format!("window={v}"));
        v
    }
    fn sshthresh(&self) -> usize {
        let v = self.inner.sshthresh();
        self.log.lock().push(format!("sshthresh={v}"));
        v
    }
    fn set_mss(&mut self, mss: usize) {
        self.log.lock().push(format!("set_mss({mss})"));
        self.inner.set_mss(mss)
    }
    fn smss(&self) -> usize {
        let v = self.inner.smss();
        self.log.lock().push(format!("smss={v}"));
        v
    }
    fn on_recovered(&mut self, new_cwnd_bytes: usize, new_sshthresh: usize) {
        self.log
            .lock()
            .push(format!("on_recovered({new_cwnd_bytes},{new_sshthresh})"));
        self.inner.on_recovered(new_cwnd_bytes, new_sshthresh)
    }
    fn on_ack(&mut self, now: Instant, len: usize, rtt: &RttEstimator) {
        self.log
            .lock()
            .push(format!("on_ack({len},{})", rtt.roundtrip_time().as_nanos()));
        self.inner.on_ack(now, len, rtt)
    }
    fn on_retransmission_timeout(&mut self, now: Instant) {
        self.log.lock().push("on_retransmission_timeout".into());
        self.inner.on_retransmission_timeout(now)
    }
    fn on_enter_recovery(&mut self, now: Instant) {
        self.log.lock().push("on_enter_recovery".into());
        self.inner.on_enter_recovery(now)
    }
    fn set_remote_window(&mut self, win: usize) {
        self.log.lock().push(format!("set_remote_window({win})"));
        self.inner.set_remote_window(win)
    }
}

// ------------------------------------------------------------------ the connection under test

pub struct Vs {
    pub rt: tokio::runtime::Runtime,
    pub rt_start: tokio::time::Instant,
    pub inner: Option<VsInner>,
}

pub struct VsInner {
    env: TokioEnv,
    tstate: Arc<Mutex<TState>>,
    _socket: Arc<UtpSocket<ScriptTransport, TokioEnv>>,
    driver: Option<VsockDriver<ScriptTransport, TokioEnv>>,
    reader: Option<librqbit_utp::UtpStreamReadHalf>,
    writer: Option<librqbit_utp::UtpStreamWriteHalf>,
    chan: Option<UnboundedSender<UtpMessage>>,
    cclog: Arc<Mutex<Vec<String>>>,
    dw: Arc<CountWaker>,
    ww: Arc<CountWaker>,
    rw: Arc<CountWaker>,
    wpos: usize,
    dead: bool,
}

impl Vs {
    pub fn new() -> Self {
        let rt = tokio::runtime::Builder::new_current_thread()
            .enable_time()
            .start_paused(true)
            // turn the time driver after every task poll, so that a timer whose deadline an `adv` op
            // passes fires during that op and not at some later one
            .event_interval(1)
            .build()
            .unwrap();
        let rt_start = {
            let _g = rt.enter();
            tokio::time::Instant::now()
        };
        Vs {
            rt,
            rt_start,
            inner: None,
        }
    }
}

fn kvs<'a>(args: &'a [&'a str]) -> std::collections::HashMap<&'a str, &'a str> {
    args.iter().filter_map(|a| a.split_once('=')).collect()
}

fn wakes(v: &VsInner) -> String {
    format!("dw={} ww={} rw={}", v.dw.take(), v.ww.take(), v.rw.take())
}

fn split_stream(s: UtpStream) -> (librqbit_utp::UtpStreamReadHalf, librqbit_utp::UtpStreamWriteHalf) {
    s.split()
}

pub fn step_vs(vs: &mut Vs, args: &[&str]) -> String {
    let _g = vs.rt.enter();
    match args {
        ["new", dir, rest @ ..] => {
            // drop the previous connection first (inside the runtime context)
            vs.inner = None;
            // tokio's timer wheel has 1 ms ticks counted from the runtime's start: begin every case on a
            // tick boundary so that firing times are a function of case-relative time only
            let off = (tokio::time::Instant::now() - vs.rt_start).as_nanos() % 1_000_000;
            if off != 0 {
                vs.rt.block_on(async {
                    tokio::time::advance(Duration::from_nanos((1_000_000 - off) as u64)).await;
                    tokio::task::yield_now().await;
                });
            }
            let k = kvs(rest);
            let g = |n: &str, d: u64| k.get(n).and_then(|v| v.parse::<u64>().ok()).unwrap_or(d);
            let env = TokioEnv::new();
            let v4 = g("v4", 1) == 1;
            let tstate = Arc::new(Mutex::new(TState {
                mode: TMode::Ok,
                sends: 0,
                out: vec![],
            }));
            let local: SocketAddr = if v4 {
                (Ipv4Addr::LOCALHOST, 1).into()
            } else {
                (Ipv6Addr::LOCALHOST, 1).into()
            };
            let remote: SocketAddr = if v4 {
                (Ipv4Addr::LOCALHOST, 2).into()
            } else {
                (Ipv6Addr::LOCALHOST, 2).into()
            };
            let transport = ScriptTransport {
                st: tstate.clone(),
                addr: local,
            };
            let opts = SocketOpts {
                link_mtu: NonZeroUsize::new(g("mtu", 1500) as usize),
                vsock_rx_bufsize_bytes: NonZeroUsize::new(g("rx", 1 << 20) as usize),
                vsock_tx_bufsize_bytes_initial: NonZeroUsize::new(g("tx0", 32768) as usize),
                vsock_tx_bufsize_bytes_max: NonZeroUsize::new(g("txmax", 1 << 20) as usize),
                disable_nagle: g("nagle", 1) == 0,
                max_retransmissions: NonZeroUsize::new(g("retx", 5) as usize),
                remote_inactivity_timeout: Some(Duration::from_nanos(g("inact", 10_000_000_000))),
                dont_wait_for_lastack: g("wla", 1) == 0,
                mtu_probe_max_retransmissions: Some(g("probe_retx", 1) as usize),
                ..Default::default()
            };
            let socket = match UtpSocket::new_with_opts(transport, env.clone(), opts) {
                Ok(s) => s,
                Err(e) => return format!("err:{e}"),
            };
            let our = g("our", 101) as u16;
            let rem = g("rem", 1) as u16;
            let cid = g("cid", 7) as u16;
            let sargs = if *dir == "out" {
                let remote_ack = UtpHeader {
                    htype: librqbit_utp::raw::Type::ST_STATE,
                    connection_id: cid.into(),
                    seq_nr: rem.into(),
                    ack_nr: our.wrapping_sub(1).into(),
                    wnd_size: g("rwnd", 1 << 20) as u32,
                    timestamp_microseconds: g("rts", 0) as u32,
                    ..Default::default()
                };
                let t0 = env.now();
                let rtt = g("rtt", 1_000_000_000);
                vs.rt.block_on(tokio::time::advance(Duration::from_nanos(rtt)));
                StreamArgs::new_outgoing(&remote_ack, t0, env.now())
            } else {
                let remote_syn = UtpHeader {
                    htype: librqbit_utp::raw::Type::ST_SYN,
                    connection_id: cid.into(),
                    seq_nr: rem.into(),
                    timestamp_microseconds: g("rts", 0) as u32,
                    ..Default::default()
                };
                StreamArgs::new_incoming(our.into(), &remote_syn)
            };
            let (mut driver, stream, chan) = VsockDriver::new(&socket, remote, sargs);
            let cclog = Arc::new(Mutex::new(Vec::new()));
            let l2 = cclog.clone();
            driver.map_congestion_controller(move |inner| Box::new(LogCc { inner, log: l2 }));
            let (reader, writer) = split_stream(stream);
            let inner = VsInner {
                env,
                tstate,
                _socket: socket,
                driver: Some(driver),
                reader: Some(reader),
                writer: Some(writer),
                chan: Some(chan),
                cclog,
                dw: Default::default(),
                ww: Default::default(),
                rw: Default::default(),
                wpos: 0,
                dead: false,
            };
            let fp = inner
                .driver
                .as_ref()
                .unwrap()
                .fingerprint(inner.env.base());
            vs.inner = Some(inner);
            format!("ok now={} fp={}", vs.inner.as_ref().unwrap().env.now_ns(), fp.replace(' ', ";"))
        }
        _ => {
            let rt = &vs.rt;
            let v = match vs.inner.as_mut() {
                Some(v) => v,
                None => return "bad-op".into(),
            };
            let dwk: Waker = v.dw.clone().into();
            let wwk: Waker = v.ww.clone().into();
            let rwk: Waker = v.rw.clone().into();
            match args {
                ["adv", ns] => match ns.parse::<u64>() {
                    Ok(ns) => {
                        rt.block_on(async {
                            tokio::time::advance(Duration::from_nanos(ns)).await;
                            tokio::task::yield_now().await;
                            tokio::task::yield_now().await;
                        });
                        format!("ok now={} {}", v.env.now_ns(), wakes(v))
                    }
                    _ => "bad-op".into(),
                },
                ["tmode", m, rest @ ..] => {
                    let n = rest.first().and_then(|x| x.parse::<usize>().ok());
                    let mode = match (*m, n) {
                        ("ok", _) => TMode::Ok,
                        ("pend", Some(k)) => TMode::PendingAfter(k),
                        ("limit", Some(l)) => TMode::Limit(l),
                        ("fail", Some(k)) => TMode::FailAfter(k),
                        _ => return "bad-op".into(),
                    };
                    v.tstate.lock().mode = mode;
                    "ok".into()
                }
                ["inject", hx] => match (hex_decode(hx).and_then(|b| UtpMessage::deserialize(&b)), v.chan.as_ref()) {
                    (Some(m), Some(ch)) => {
                        let r = if ch.send(m).is_ok() { "ok" } else { "closed" };
                        format!("{r} {}", wakes(v))
                    }
                    (None, _) => "unparseable".into(),
                    (_, None) => "bad-op".into(),
                },
                ["chanclose"] => match v.chan.take() {
                    Some(ch) => {
                        drop(ch);
                        format!("ok {}", wakes(v))
                    }
                    None => "bad-op".into(),
                },
                ["poll"] | ["poll", _] => {
                    if v.dead {
                        return "bad-op".into();
                    }
                    v.tstate.lock().sends = 0;
                    let mut cx = Context::from_waker(&dwk);
                    let driver = v.driver.as_mut().unwrap();
                    let mut fut = tokio::task::unconstrained(std::future::poll_fn(|cx| {
                        Poll::Ready(driver.poll_once(cx))
                    }));
                    let res = match Pin::new(&mut fut).poll(&mut cx) {
                        Poll::Ready(r) => r,
                        Poll::Pending => unreachable!(),
                    };
                    drop(fut);
                    let rs = match &res {
                        Poll::Pending => "pending".to_string(),
                        Poll::Ready(Ok(())) => "ready:ok".to_string(),
                        Poll::Ready(Err(e)) => format!("ready:err:{}", e.to_string().replace(' ', "_")),
                    };
                    let out: Vec<String> = std::mem::take(&mut v.tstate.lock().out)
                        .iter()
                        .map(|d| hex_encode(d))
                        .collect();
                    let cc = std::mem::take(&mut *v.cclog.lock());
                    let fp = v.driver.as_ref().unwrap().fingerprint(v.env.base());
                    if !matches!(res, Poll::Pending) {
                        // the task is finished: tokio drops the future
                        v.dead = true;
                        v.driver = None;
                    }
                    format!(
                        "{rs} out=[{}] {} cc=[{}] fp={}",
                        out.join(","),
                        wakes(v),
                        cc.join(","),
                        fp.replace(' ', ";")
                    )
                }
                ["write", n] => match (n.parse::<usize>(), v.writer.as_mut()) {
                    (Ok(n), Some(w)) if n <= 1 << 22 => {
                        let b: Vec<u8> = (0..n).map(|j| (((v.wpos + j) * 7 + 3) % 251) as u8).collect();
                        let mut cx = Context::from_waker(&wwk);
                        let r = match Pin::new(w).poll_write(&mut cx, &b) {
                            Poll::Ready(Ok(k)) => {
                                v.wpos += k;
                                format!("ready:{k}")
                            }
                            Poll::Ready(Err(e)) => format!("err:{}", e.to_string().replace(' ', "_")),
                            Poll::Pending => "pending".into(),
                        };
                        format!("{r} {}", wakes(v))
                    }
                    _ => "bad-op".into(),
                },
                ["flush"] | ["shutdown"] => match v.writer.as_mut() {
                    Some(w) => {
                        let mut cx = Context::from_waker(&wwk);
                        let p = if args[0] == "flush" {
                            Pin::new(w).poll_flush(&mut cx)
                        } else {
                            Pin::new(w).poll_shutdown(&mut cx)
                        };
                        let r = match p {
                            Poll::Ready(Ok(())) => "ok".to_string(),
                            Poll::Ready(Err(e)) => format!("err:{}", e.to_string().replace(' ', "_")),
                            Poll::Pending => "pending".into(),
                        };
                        format!("{r} {}", wakes(v))
                    }
                    None => "bad-op".into(),
                },
                ["read", n] => match (n.parse::<usize>(), v.reader.as_mut()) {
                    (Ok(n), Some(r)) if n <= 1 << 22 => {
                        let mut buf = vec![0u8; n];
                        let mut rb = ReadBuf::new(&mut buf);
                        let mut cx = Context::from_waker(&rwk);
                        let res = match Pin::new(r).poll_read(&mut cx, &mut rb) {
                            Poll::Ready(Ok(())) => {
                                let f = rb.filled();
                                if f.is_empty() {
                                    "eof".to_string()
                                } else {
                                    format!("data:{}", hex_encode(f))
                                }
                            }
                            Poll::Ready(Err(e)) => format!("err:{}", e.to_string().replace(' ', "_")),
                            Poll::Pending => "pending".into(),
                        };
                        format!("{res} {}", wakes(v))
                    }
                    _ => "bad-op".into(),
                },
                ["dropw"] => match v.writer.take() {
                    Some(w) => {
                        drop(w);
                        format!("ok {}", wakes(v))
                    }
                    None => "bad-op".into(),
                },
                ["dropr"] => match v.reader.take() {
                    Some(r) => {
                        drop(r);
                        format!("ok {}", wakes(v))
                    }
                    None => "bad-op".into(),
                },
                _ => "bad-op".into(),
            }
        }
    }
}
