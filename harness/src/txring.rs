use std::{
    num::NonZeroUsize,
    pin::Pin,
    sync::{
        Arc,
        atomic::{AtomicUsize, Ordering},
    },
    task::{Context, Poll, Wake, Waker},
};

use librqbit_utp::UtpStreamWriteHalf;
use librqbit_utp::verif::{UserTx, prepare_2_ioslices};
use ringbuf::traits::{Consumer, Observer};
use tokio::io::AsyncWrite;

use crate::util::{b01, hex_decode, hex_encode, opt};

#[derive(Default)]
pub struct CountWaker(pub AtomicUsize);

impl Wake for CountWaker {
    fn wake(self: Arc<Self>) {
        self.0.fetch_add(1, Ordering::SeqCst);
    }
    fn wake_by_ref(self: &Arc<Self>) {
        self.0.fetch_add(1, Ordering::SeqCst);
    }
}

impl CountWaker {
    pub fn take(&self) -> usize {
        self.0.swap(0, Ordering::SeqCst)
    }
}

pub struct TxSt {
    pub user_tx: Arc<UserTx>,
    pub writer: Option<UtpStreamWriteHalf>,
    pub dw: Arc<CountWaker>,
    pub ww: Arc<CountWaker>,
    pub wb: Arc<CountWaker>,
    pub pos: usize,
}

impl TxSt {
    pub fn new(cap: usize) -> Self {
        let user_tx = UserTx::new(NonZeroUsize::new(cap).unwrap());
        TxSt {
            writer: Some(UtpStreamWriteHalf::new(user_tx.clone())),
            user_tx,
            dw: Default::default(),
            ww: Default::default(),
            wb: Default::default(),
            pos: 0,
        }
    }

    fn show(&self) -> String {
        let c = self.user_tx.consumer.lock();
        format!(
            "dw={} ww={} wb={} len={} cap={}",
            self.dw.take(),
            self.ww.take(),
            self.wb.take(),
            c.occupied_len(),
            c.capacity().get()
        )
    }
}

fn ioerr(e: &std::io::Error) -> &'static str {
    match e.to_string().as_str() {
        "socket closed" => "err:socket-closed",
        "no writing after shutdown" => "err:after-shutdown",
        "shutdown was initiated, can't write" => "err:dropped",
        "socket died" => "err:socket-died",
        _ => "err:other",
    }
}

pub fn step_txring(t: &mut TxSt, args: &[&str]) -> String {
    let ww: Waker = t.ww.clone().into();
    let mut cx = Context::from_waker(&ww);
    match args {
        ["new", c] => match c.parse::<usize>() {
            Ok(c) if c > 0 && c <= 1 << 24 => {
                *t = TxSt::new(c);
                t.show()
            }
            _ => "bad-op".into(),
        },
        ["write", hx] => match (hex_decode(hx), t.writer.as_mut()) {
            (Some(b), Some(w)) => {
                let r = match Pin::new(w).poll_write(&mut cx, &b) {
                    Poll::Ready(Ok(n)) => format!("ready:{n}"),
                    Poll::Ready(Err(e)) => ioerr(&e).to_string(),
                    Poll::Pending => "pending".into(),
                };
                format!("{r} {}", t.show())
            }
            _ => "bad-op".into(),
        },
        ["writepos", n] => match (n.parse::<usize>(), t.writer.as_mut()) {
            (Ok(n), Some(w)) if n <= 1 << 20 => {
                let b: Vec<u8> = (0..n).map(|j| (((t.pos + j) * 7 + 3) % 251) as u8).collect();
                let r = match Pin::new(w).poll_write(&mut cx, &b) {
                    Poll::Ready(Ok(n)) => {
                        t.pos += n;
                        format!("ready:{n}")
                    }
                    Poll::Ready(Err(e)) => ioerr(&e).to_string(),
                    Poll::Pending => "pending".into(),
                };
                format!("{r} {}", t.show())
            }
            _ => "bad-op".into(),
        },
        // the same write half polled by a second task (waker B)
        ["writeposb", n] => match (n.parse::<usize>(), t.writer.as_mut()) {
            (Ok(n), Some(w)) if n <= 1 << 20 => {
                let wb: Waker = t.wb.clone().into();
                let mut cxb = Context::from_waker(&wb);
                let b: Vec<u8> = (0..n).map(|j| (((t.pos + j) * 7 + 3) % 251) as u8).collect();
                let r = match Pin::new(w).poll_write(&mut cxb, &b) {
                    Poll::Ready(Ok(n)) => {
                        t.pos += n;
                        format!("ready:{n}")
                    }
                    Poll::Ready(Err(e)) => ioerr(&e).to_string(),
                    Poll::Pending => "pending".into(),
                };
                format!("{r} {}", t.show())
            }
            _ => "bad-op".into(),
        },
        // `flushb` / `shutdownb`: the same call polled by a second task (waker B)
        ["flush"] | ["shutdown"] | ["flushb"] | ["shutdownb"] => match t.writer.as_mut() {
            Some(w) => {
                let wb: Waker = t.wb.clone().into();
                let mut cxb = Context::from_waker(&wb);
                let cxw = if args[0].ends_with('b') { &mut cxb } else { &mut cx };
                let p = if args[0].starts_with("flush") {
                    Pin::new(w).poll_flush(cxw)
                } else {
                    Pin::new(w).poll_shutdown(cxw)
                };
                let r = match p {
                    Poll::Ready(Ok(())) => "ok".to_string(),
                    Poll::Ready(Err(e)) => ioerr(&e).to_string(),
                    Poll::Pending => "pending".into(),
                };
                format!("{r} {}", t.show())
            }
            None => "bad-op".into(),
        },
        ["dropw"] => match t.writer.take() {
            Some(w) => {
                drop(w);
                format!("ok {}", t.show())
            }
            None => "bad-op".into(),
        },
        ["close"] => {
            t.user_tx.mark_vsock_closed();
            format!("ok {}", t.show())
        }
        ["trunc", n] => match n.parse::<usize>() {
            Ok(n) => {
                let r = match t.user_tx.truncate_front(n) {
                    Ok(()) => "ok",
                    Err(_) => "bug:truncate",
                };
                format!("{r} {}", t.show())
            }
            _ => "bad-op".into(),
        },
        // C19 "growth never loses bytes" with a REAL second thread: a writer thread keeps calling poll_write while
        // this thread grows the buffer (8 -> 65536, doubling) and drains it; every byte the writer was told was accepted
        // must come out, in order. Stand-alone (own UserTx); prints only ok / lost so that the model can answer.
        ["race", rounds] => match rounds.parse::<usize>() {
            Ok(rounds) if rounds > 0 && rounds <= 2000 => {
                let mut verdict = "ok".to_string();
                'outer: for _ in 0..rounds {
                    let user_tx = UserTx::new(NonZeroUsize::new(8).unwrap());
                    let mut w = UtpStreamWriteHalf::new(user_tx.clone());
                    let total: usize = 40_000;
                    let h = std::thread::spawn(move || {
                        let waker = Waker::noop();
                        let mut cx = Context::from_waker(waker);
                        let mut pos = 0usize;
                        let mut spins = 0u64;
                        while pos < total && spins < 50_000_000 {
                            let n = (total - pos).min(1 + pos % 13);
                            let b: Vec<u8> = (0..n).map(|j| (((pos + j) * 7 + 3) % 251) as u8).collect();
                            match Pin::new(&mut w).poll_write(&mut cx, &b) {
                                Poll::Ready(Ok(k)) => pos += k,
                                _ => {
                                    spins += 1;
                                    std::thread::yield_now();
                                }
                            }
                        }
                        (pos, w)
                    });
                    let mut got = 0usize;
                    let mut idle = 0u64;
                    while !h.is_finished() || idle < 3 {
                        // take a few bytes out (so that the writer has room and is pushing), then grow by ONE byte
                        // at once: thousands of grow() calls per round, each overlapping a writer that has room
                        let mut popped = 0;
                        let cap = {
                            let mut c = user_tx.consumer.lock();
                            while popped < 3 || (h.is_finished() && popped < 1 << 20) {
                                match c.try_pop() {
                                    Some(b) => {
                                        if b != ((got * 7 + 3) % 251) as u8 {
                                            verdict = format!("lost:byte_{got}_is_not_the_one_accepted_there");
                                        }
                                        got += 1;
                                        popped += 1;
                                    }
                                    None => break,
                                }
                            }
                            c.capacity().get()
                        };
                        if cap < 4096 {
                            let _ = user_tx.grow(NonZeroUsize::new(cap + 1).unwrap());
                        }
                        if h.is_finished() && popped == 0 {
                            idle += 1;
                        }
                        if verdict != "ok" {
                            break;
                        }
                    }
                    let (accepted, _w) = h.join().unwrap_or((usize::MAX, UtpStreamWriteHalf::new(user_tx.clone())));
                    if verdict == "ok" {
                        let mut c = user_tx.consumer.lock();
                        while c.try_pop().is_some() {
                            got += 1;
                        }
                        if got != accepted {
                            verdict = format!("lost:{}_bytes_accepted_{}_came_out", accepted, got);
                        }
                    }
                    if verdict != "ok" {
                        break 'outer;
                    }
                }
                if verdict == "ok" { "ok".into() } else { verdict }
            }
            _ => "bad-op".into(),
        },
        ["grow", m] => match m.parse::<usize>() {
            Ok(m) if m > 0 && m <= 1 << 24 => {
                let r = t.user_tx.grow(NonZeroUsize::new(m).unwrap());
                format!("{} {}", opt(r), t.show())
            }
            _ => "bad-op".into(),
        },
        ["takeww"] => {
            let w = t.user_tx.locked.write().writer_waker.take();
            if let Some(w) = w {
                w.wake();
            }
            format!("ok {}", t.show())
        }
        ["regdisp"] => {
            t.user_tx.locked.write().dispatcher_waker = Some(t.dw.clone().into());
            format!("ok {}", t.show())
        }
        ["peek", off, len] => match (off.parse::<usize>(), len.parse::<usize>()) {
            (Ok(off), Ok(len)) => {
                let g = t.user_tx.consumer.lock();
                let (first, second) = g.as_slices();
                match prepare_2_ioslices(first, second, off, len) {
                    Ok([a, b]) => {
                        let mut v = a.to_vec();
                        v.extend_from_slice(b);
                        format!("ok {}", hex_encode(&v))
                    }
                    Err(librqbit_utp::Error::BugOffsetBeyondBufferBounds) => "bug:offset".into(),
                    Err(librqbit_utp::Error::BugRequestedLengthExceedsBufferBounds) => {
                        "bug:length".into()
                    }
                    Err(_) => "bug:other".into(),
                }
            }
            _ => "bad-op".into(),
        },
        ["flags"] => {
            // vsock_closed is private: observe it through poll_flush semantics is destructive, so
            // only the two public flags are compared; closed is covered by write/flush results.
            format!(
                "dropped={} shutdown={}",
                b01(t.user_tx.is_writer_dropped()),
                b01(t.user_tx.is_writer_shutdown())
            )
        }
        _ => "bad-op".into(),
    }
}
