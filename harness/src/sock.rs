//! `sock` component: drives the real socket `Dispatcher` (through the `DispatcherDriver` hook) one
//! loop iteration at a time, with scripted connect()/accept() calls, datagrams and control requests.
//! Connection tasks that get spawned are never polled here (the harness never yields to the runtime),
//! so what is observed is the dispatcher alone.
use std::{
    collections::{BTreeMap, VecDeque},
    future::Future,
    net::{Ipv4Addr, SocketAddr},
    num::NonZeroUsize,
    pin::Pin,
    sync::Arc,
    task::{Context, Poll, Waker},
    time::Instant,
};

use librqbit_dualstack_sockets::PollSendToVectored;
use librqbit_utp::verif::{DispatcherDriver, UtpEnvironment};
use librqbit_utp::{SocketOpts, Transport, UtpSocket, UtpStream};
use parking_lot::Mutex;

use crate::util::{hex_decode, hex_encode};

#[derive(Clone)]
pub struct SockEnv {
    base: Instant,
    rnd: Arc<Mutex<VecDeque<u16>>>,
}

impl UtpEnvironment for SockEnv {
    fn now(&self) -> Instant {
        self.base
    }
    fn copy(&self) -> Self {
        self.clone()
    }
    fn random_u16(&self) -> u16 {
        self.rnd.lock().pop_front().unwrap_or(0)
    }
}

#[derive(Clone, Copy, PartialEq)]
enum SendMode {
    Ok,
    Fail,
    Short,
}

struct NetState {
    inbox: VecDeque<(SocketAddr, Vec<u8>)>,
    waker: Option<Waker>,
    out: Vec<(SocketAddr, Vec<u8>)>,
    mode: SendMode,
}

#[derive(Clone)]
pub struct SockTransport {
    st: Arc<Mutex<NetState>>,
    addr: SocketAddr,
}

impl SockTransport {
    fn send(&self, buf: &[u8], target: SocketAddr) -> std::io::Result<usize> {
        let mut g = self.st.lock();
        match g.mode {
            SendMode::Ok => {
                g.out.push((target, buf.to_vec()));
                Ok(buf.len())
            }
            SendMode::Fail => Err(std::io::Error::other("scripted transport failure")),
            SendMode::Short => Ok(buf.len() - 1),
        }
    }
}

impl Transport for SockTransport {
    fn recv_from<'a>(
        &'a self,
        buf: &'a mut [u8],
    ) -> impl Future<Output = std::io::Result<(usize, SocketAddr)>> + Send + Sync + 'a {
        std::future::poll_fn(move |cx| {
            let mut g = self.st.lock();
            match g.inbox.pop_front() {
                Some((a, d)) => {
                    buf[..d.len()].copy_from_slice(&d);
                    Poll::Ready(Ok((d.len(), a)))
                }
                None => {
                    g.waker = Some(cx.waker().clone());
                    Poll::Pending
                }
            }
        })
    }

    async fn send_to<'a>(&'a self, buf: &'a [u8], target: SocketAddr) -> std::io::Result<usize> {
        self.send(buf, target)
    }

    fn poll_send_to(&self, _cx: &mut Context<'_>, buf: &[u8], target: SocketAddr) -> Poll<std::io::Result<usize>> {
        Poll::Ready(self.send(buf, target))
    }

    fn bind_addr(&self) -> SocketAddr {
        self.addr
    }
}

impl PollSendToVectored for SockTransport {
    fn poll_send_to_vectored(
        &self,
        _cx: &mut Context<'_>,
        bufs: &[std::io::IoSlice<'_>],
        target: SocketAddr,
    ) -> Poll<std::io::Result<usize>> {
        let mut buf = Vec::new();
        bufs.iter().for_each(|b| buf.extend_from_slice(b.as_ref()));
        Poll::Ready(self.send(&buf, target))
    }
}

type Fut = Pin<Box<dyn Future<Output = librqbit_utp::Result<UtpStream>>>>;

enum Call {
    Pending(Fut),
    Done(#[allow(dead_code)] Option<UtpStream>),
}

pub struct SockInner {
    rt: tokio::runtime::Runtime,
    net: Arc<Mutex<NetState>>,
    env: SockEnv,
    socket: Arc<UtpSocket<SockTransport, SockEnv>>,
    driver: Option<DispatcherDriver<SockTransport, SockEnv>>,
    // a `run_once` that found nothing ready and is left waiting inside `select!` (owns the driver meanwhile)
    parked: Option<Pin<Box<dyn Future<Output = (DispatcherDriver<SockTransport, SockEnv>, librqbit_utp::Result<()>)>>>>,
    connects: BTreeMap<u32, Call>,
    accepts: BTreeMap<u32, Call>,
}

pub struct SockSt {
    pub inner: Option<SockInner>,
}

impl SockSt {
    pub fn new() -> Self {
        SockSt { inner: None }
    }
}

fn addr_of(port: u16) -> SocketAddr {
    (Ipv4Addr::LOCALHOST, port).into()
}

fn parse_list(s: &str) -> Vec<u16> {
    s.split(',').filter_map(|x| x.parse::<u16>().ok()).collect()
}

fn poll_call(c: &mut Call) -> String {
    let mut cx = Context::from_waker(Waker::noop());
    match c {
        Call::Pending(f) => match f.as_mut().poll(&mut cx) {
            Poll::Pending => "pending".into(),
            Poll::Ready(Ok(s)) => {
                let r = format!("ok remote={}", s.remote_addr().port());
                *c = Call::Done(Some(s));
                r
            }
            Poll::Ready(Err(e)) => {
                let r = format!("err:{}", format!("{e}").replace(' ', "_"));
                *c = Call::Done(None);
                r
            }
        },
        Call::Done(_) => "done".into(),
    }
}

fn take_out(s: &SockInner) -> String {
    let out: Vec<(SocketAddr, Vec<u8>)> = std::mem::take(&mut s.net.lock().out);
    let v: Vec<String> = out.iter().map(|(a, d)| format!("{}:{}", a.port(), hex_encode(d))).collect();
    format!("out=[{}]", v.join(","))
}

pub fn step_sock(st: &mut SockSt, args: &[&str]) -> String {
    if let ["new", rest @ ..] = args {
        // drop the previous world inside its own runtime context
        if let Some(old) = st.inner.take() {
            let SockInner { rt, connects, accepts, driver, socket, parked, .. } = old;
            {
                let _g = rt.enter();
                drop(connects);
                drop(accepts);
                drop(parked);
                drop(driver);
                drop(socket);
            }
            drop(rt);
        }
        let kv: std::collections::HashMap<&str, &str> = rest.iter().filter_map(|a| a.split_once('=')).collect();
        let max = kv.get("max").and_then(|v| v.parse::<usize>().ok()).unwrap_or(128);
        let rnd = kv.get("r").map(|v| parse_list(v)).unwrap_or_default();
        let rt = tokio::runtime::Builder::new_current_thread().enable_time().start_paused(true).build().unwrap();
        let env = SockEnv { base: Instant::now(), rnd: Arc::new(Mutex::new(rnd.into())) };
        let net = Arc::new(Mutex::new(NetState { inbox: VecDeque::new(), waker: None, out: vec![], mode: SendMode::Ok }));
        let transport = SockTransport { st: net.clone(), addr: addr_of(1) };
        let opts = SocketOpts { max_live_vsocks: NonZeroUsize::new(max), ..Default::default() };
        let res = {
            let _g = rt.enter();
            DispatcherDriver::new(transport, env.clone(), opts)
        };
        return match res {
            Ok((socket, driver)) => {
                let fp = driver.fingerprint();
                st.inner = Some(SockInner { rt, net, env, socket, driver: Some(driver), parked: None, connects: BTreeMap::new(), accepts: BTreeMap::new() });
                format!("ok fp={fp}")
            }
            Err(e) => format!("err:{e}"),
        };
    }
    let Some(s) = st.inner.as_mut() else {
        return "bad-op".into();
    };
    let _g = s.rt.enter();
    if s.parked.is_some() && !matches!(args, ["accept", _] | ["inject", _, _] | ["resume", ..]) {
        return "bad-op".into();
    }
    if s.parked.is_none() && matches!(args, ["resume", ..]) {
        return "bad-op".into();
    }
    let p32 = |x: &str| x.parse::<u32>().ok();
    let p16 = |x: &str| x.parse::<u16>().ok();
    let head: String = match args {
        ["rand", list] => {
            s.env.rnd.lock().extend(parse_list(list));
            "ok".into()
        }
        ["tmode", m] => {
            let m = match *m {
                "ok" => SendMode::Ok,
                "fail" => SendMode::Fail,
                "short" => SendMode::Short,
                _ => return "bad-op".into(),
            };
            s.net.lock().mode = m;
            "ok".into()
        }
        ["connect", i, port] => match (p32(i), p16(port)) {
            (Some(i), Some(port)) if !s.connects.contains_key(&i) => {
                let sock = s.socket.clone();
                let a = addr_of(port);
                let mut c = Call::Pending(Box::pin(async move { sock.connect(a).await }));
                let r = poll_call(&mut c);
                s.connects.insert(i, c);
                r
            }
            _ => return "bad-op".into(),
        },
        ["accept", i] => match p32(i) {
            Some(i) if !s.accepts.contains_key(&i) => {
                let sock = s.socket.clone();
                let before = s.driver.as_ref().map(|d| d.queue_lens().1);
                let mut c = Call::Pending(Box::pin(async move { sock.accept().await }));
                let r = poll_call(&mut c);
                s.accepts.insert(i, c);
                if r == "pending" && before.is_some() && s.driver.as_ref().map(|d| d.queue_lens().1) == before { "blocked".into() } else { r }
            }
            _ => return "bad-op".into(),
        },
        ["pollconn", i] => match p32(i).and_then(|i| s.connects.get_mut(&i)) {
            Some(c) => poll_call(c),
            None => return "bad-op".into(),
        },
        ["pollacc", i] => match p32(i).and_then(|i| s.accepts.get_mut(&i)) {
            Some(c) => poll_call(c),
            None => return "bad-op".into(),
        },
        ["dropconn", i] => match p32(i).and_then(|i| s.connects.get_mut(&i)) {
            Some(c) => {
                *c = Call::Done(None);
                "ok".into()
            }
            None => return "bad-op".into(),
        },
        ["dropacc", i] => match p32(i).and_then(|i| s.accepts.get_mut(&i)) {
            Some(c) => {
                *c = Call::Done(None);
                "ok".into()
            }
            None => return "bad-op".into(),
        },
        ["inject", port, hx] => match (p16(port), hex_decode(hx)) {
            (Some(port), Some(d)) if d.len() <= 16384 => {
                let mut g = s.net.lock();
                g.inbox.push_back((addr_of(port), d));
                if let Some(w) = g.waker.take() {
                    w.wake();
                }
                "ok".into()
            }
            _ => return "bad-op".into(),
        },
        ["shutdown", port, id] => match (p16(port), p16(id)) {
            (Some(port), Some(id)) => {
                s.driver.as_ref().unwrap().send_shutdown(addr_of(port), id);
                "ok".into()
            }
            _ => return "bad-op".into(),
        },
        ["run", ..] | ["park", ..] => {
            let keep = args[0] == "park";
            let mut driver = s.driver.take().unwrap();
            let (ctl0, _, _) = driver.queue_lens();
            let in0 = s.net.lock().inbox.len();
            let mut fut: Pin<Box<dyn Future<Output = _>>> = Box::pin(async move {
                let r = driver.run_once().await;
                (driver, r)
            });
            let mut cx = Context::from_waker(Waker::noop());
            match fut.as_mut().poll(&mut cx) {
                Poll::Pending => {
                    if keep {
                        s.parked = Some(fut);
                        return "parked out=[] fp=-".into();
                    }
                    // `run`: give up the wait. Dropping the future drops the driver it owns, so run it to the
                    // point where it hands the driver back is not possible; instead keep it parked internally
                    // and resume it transparently at the next run.
                    s.parked = Some(fut);
                    let r = unpark_idle(s);
                    r
                }
                Poll::Ready((driver, res)) => {
                    let (ctl1, _, _) = driver.queue_lens();
                    let in1 = s.net.lock().inbox.len();
                    s.driver = Some(driver);
                    match res {
                        Err(e) => format!("err:{}", format!("{e}").replace(' ', "_")),
                        Ok(()) => {
                            if ctl1 < ctl0 {
                                "ctl".into()
                            } else if in1 < in0 {
                                "recv".into()
                            } else {
                                "acc".into()
                            }
                        }
                    }
                }
            }
        }
        ["resume", ..] => {
            let in0 = s.net.lock().inbox.len();
            let mut fut = s.parked.take().unwrap();
            let mut cx = Context::from_waker(Waker::noop());
            match fut.as_mut().poll(&mut cx) {
                Poll::Pending => {
                    s.parked = Some(fut);
                    return "parked out=[] fp=-".into();
                }
                Poll::Ready((driver, res)) => {
                    let in1 = s.net.lock().inbox.len();
                    s.driver = Some(driver);
                    match res {
                        Err(e) => format!("err:{}", format!("{e}").replace(' ', "_")),
                        Ok(()) => {
                            if in1 < in0 {
                                "recv".into()
                            } else {
                                "acc".into()
                            }
                        }
                    }
                }
            }
        }
        ["fp"] => "ok".into(),
        _ => return "bad-op".into(),
    };
    match s.driver.as_ref() {
        Some(d) => format!("{head} {} fp={}", take_out(s), d.fingerprint()),
        None => format!("{head} {} fp=-", take_out(s)),
    }
}

/// `run` found nothing ready: the iteration is abandoned the way the real loop never does, so to get the
/// driver back the parked future is resumed with a no-op wake-up source: an empty datagram that the
/// dispatcher discards as unparseable.
fn unpark_idle(s: &mut SockInner) -> String {
    {
        let mut g = s.net.lock();
        g.inbox.push_back((addr_of(0), vec![]));
    }
    let mut fut = s.parked.take().unwrap();
    let mut cx = Context::from_waker(Waker::noop());
    match fut.as_mut().poll(&mut cx) {
        Poll::Ready((driver, _)) => {
            s.driver = Some(driver);
            "idle".into()
        }
        Poll::Pending => "PANIC harness: idle run did not resume".into(),
    }
}
