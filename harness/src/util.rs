pub fn hex_decode(s: &str) -> Option<Vec<u8>> {
    if s == "-" {
        return Some(vec![]);
    }
    if s.len() % 2 != 0 {
        return None;
    }
    (0..s.len())
        .step_by(2)
        .map(|i| u8::from_str_radix(s.get(i..i + 2)?, 16).ok())
        .collect()
}

pub fn hex_encode(b: &[u8]) -> String {
    if b.is_empty() {
        return "-".into();
    }
    let mut s = String::with_capacity(b.len() * 2);
    for x in b {
        s.push_str(&format!("{x:02x}"));
    }
    s
}

pub fn opt<T: std::fmt::Display>(o: Option<T>) -> String {
    match o {
        Some(v) => v.to_string(),
        None => "-".into(),
    }
}

pub fn b01(b: bool) -> &'static str {
    if b { "1" } else { "0" }
}
