//! Correspondence harness: executes line-protocol ops on the REAL librqbit-utp code
//! (feature `verif`) and prints one canonical output line per op. The Lean driver
//! (`/verif/lean/Main.lean`) executes the same lines on the model.
use std::io::{BufRead, Write};

mod cubic;
mod pure;
mod rx;
mod sock;
mod segs;
mod mtu;
mod net;
mod txring;
mod util;
mod vsock;
mod wire;

pub struct St {
    pub rtte: librqbit_utp::verif::RttEstimator,
    pub mtu: librqbit_utp::mtu::SegmentSizes,
    pub tx: txring::TxSt,
    pub rx: rx::RxSt,
    pub segs: segs::SegSt,
    pub vs: vsock::Vs,
    pub cubic: cubic::CubicSt,
    pub sock: sock::SockSt,
    pub net: net::NetSt,
}

fn step(st: &mut St, line: &str) -> String {
    let toks: Vec<&str> = line.split_whitespace().collect();
    match toks.split_first() {
        Some((&"nop", _)) => "ok".into(),
        Some((&"seqnr", args)) => pure::step_seqnr(args),
        Some((&"wire", args)) => wire::step_wire(args),
        Some((&"mtu", args)) => mtu::step_mtu(&mut st.mtu, args),
        Some((&"tx", args)) => txring::step_txring(&mut st.tx, args),
        Some((&"rx", args)) => rx::step_rx(&mut st.rx, args),
        Some((&"seg", args)) => segs::step_segs(&mut st.segs, args),
        Some((&"vs", args)) => vsock::step_vs(&mut st.vs, args),
        Some((&"cubic", args)) => cubic::step_cubic(&mut st.cubic, args),
        Some((&"sock", args)) => sock::step_sock(&mut st.sock, args),
        Some((&"net", args)) => net::step_net(&mut st.net, args),
        Some((&"rtte", args)) => pure::step_rtte(&mut st.rtte, args),
        _ => "bad-op".into(),
    }
}

fn main() {
    // Panics inside a case are reported as an output line, not a crash of the run.
    std::panic::set_hook(Box::new(|_| {}));
    let stdin = std::io::stdin();
    let stdout = std::io::stdout();
    let mut out = std::io::BufWriter::new(stdout.lock());
    // `--interactive`: flush after every line (used by generators that react to the implementation's output)
    let interactive = std::env::args().any(|a| a == "--interactive");
    let mut st = St {
        rtte: Default::default(),
        mtu: librqbit_utp::mtu::SegmentSizes::new(Default::default()),
        tx: txring::TxSt::new(16),
        rx: rx::RxSt::new(64, 8),
        segs: segs::SegSt::new(0),
        vs: vsock::Vs::new(),
        cubic: cubic::CubicSt::new(),
        sock: sock::SockSt::new(),
        net: net::NetSt::new(),
    };
    for line in stdin.lock().lines() {
        let line = line.unwrap();
        let res = std::panic::catch_unwind(std::panic::AssertUnwindSafe(|| step(&mut st, &line)));
        match res {
            Ok(s) => {
                writeln!(out, "{s}").unwrap();
                if interactive {
                    out.flush().unwrap();
                }
            }
            Err(e) => {
                let msg = e
                    .downcast_ref::<String>()
                    .cloned()
                    .or_else(|| e.downcast_ref::<&str>().map(|s| s.to_string()))
                    .unwrap_or_default();
                writeln!(out, "PANIC {}", msg.replace('\n', " ")).unwrap();
                if interactive {
                    out.flush().unwrap();
                }
            }
        }
    }
}
