use std::{
    num::NonZeroUsize,
    pin::Pin,
    sync::Arc,
    task::{Context, Poll, Waker},
};

use librqbit_utp::UtpStreamReadHalf;
use librqbit_utp::raw::UtpHeader;
use librqbit_utp::verif::{AssemblerAddRemoveResult, UserRx, UtpMessage};
use tokio::io::{AsyncRead, ReadBuf};

use crate::txring::CountWaker;
use crate::util::{b01, hex_decode, hex_encode};
use crate::wire::{show_sack, type_from};

pub struct RxSt {
    pub rx: UserRx,
    pub reader: Option<UtpStreamReadHalf>,
    pub consumed: usize,
    pub fin_seen: bool,
    pub dw: Arc<CountWaker>,
    pub rw: Arc<CountWaker>,
    pub rwb: Arc<CountWaker>,
}

impl RxSt {
    pub fn new(a: usize, b: usize) -> Self {
        let (rx, reader) = UserRx::build(NonZeroUsize::new(a).unwrap(), NonZeroUsize::new(b).unwrap());
        RxSt {
            rx,
            reader: Some(reader),
            consumed: 0,
            fin_seen: false,
            dw: Default::default(),
            rw: Default::default(),
            rwb: Default::default(),
        }
    }

    fn show(&self) -> String {
        format!(
            "win={} sack={} aempty={} dw={} rw={} rwb={}",
            self.rx.remaining_rx_window(),
            show_sack(&self.rx.selective_ack()),
            b01(self.rx.assembler_empty()),
            self.dw.take(),
            self.rw.take(),
            self.rwb.take()
        )
    }
}

pub fn step_rx(s: &mut RxSt, args: &[&str]) -> String {
    let dw: Waker = s.dw.clone().into();
    let rw: Waker = s.rw.clone().into();
    let mut dcx = Context::from_waker(&dw);
    let mut rcx = Context::from_waker(&rw);
    match args {
        ["new", a, b] => match (a.parse::<usize>(), b.parse::<usize>()) {
            (Ok(a), Ok(b)) if a > 0 && b > 0 && a <= 1 << 24 => {
                *s = RxSt::new(a, b);
                s.show()
            }
            _ => "bad-op".into(),
        },
        ["arrive", idx, ty, hx] => match (idx.parse::<usize>(), ty.parse::<u8>().ok().and_then(type_from), hex_decode(hx)) {
            (Ok(idx), Some(ty), Some(p)) => {
                let is_fin = matches!(ty, librqbit_utp::raw::Type::ST_FIN);
                if idx < s.consumed {
                    return format!("dup {}", s.show());
                }
                if is_fin && (idx != s.consumed || s.fin_seen) {
                    return format!("fin-dropped {}", s.show());
                }
                let msg = UtpMessage {
                    header: UtpHeader {
                        htype: ty,
                        ..Default::default()
                    },
                    data: p,
                };
                let res = s.rx.add_remove(&mut dcx, msg, idx - s.consumed);
                let r = match &res {
                    Ok(AssemblerAddRemoveResult::Consumed {
                        sequence_numbers,
                        bytes,
                    }) => {
                        if !is_fin {
                            s.consumed += sequence_numbers;
                        }
                        format!("consumed:{sequence_numbers}:{bytes}")
                    }
                    Ok(AssemblerAddRemoveResult::AlreadyPresent) => "present".into(),
                    Ok(AssemblerAddRemoveResult::Unavailable(_)) => "unavail".into(),
                    Err(librqbit_utp::Error::ZeroPayloadStData) => "err:zero".into(),
                    Err(librqbit_utp::Error::BugInvalidMessageExpectedStDataOrFin) => "bug:invalid".into(),
                    Err(librqbit_utp::Error::BugAssemblerMissingSlot(_)) => "bug:slot".into(),
                    Err(e) => format!("err:other:{e}"),
                };
                if is_fin {
                    s.consumed = idx + 1;
                    s.fin_seen = true;
                }
                format!("{r} {}", s.show())
            }
            _ => "bad-op".into(),
        },
        ["flush"] => match s.rx.flush(&mut dcx) {
            Ok(n) => format!("flushed:{n} {}", s.show()),
            Err(e) => format!("err:{e}"),
        },
        // `readb`: the same read half polled by a second task (waker B)
        ["read", n] | ["readb", n] => match (n.parse::<usize>(), s.reader.as_mut()) {
            (Ok(n), Some(r)) if n <= 1 << 24 => {
                let mut v = vec![0u8; n];
                let mut rb = ReadBuf::new(&mut v);
                let rwb: Waker = s.rwb.clone().into();
                let mut rcxb = Context::from_waker(&rwb);
                let cxr = if args[0] == "readb" { &mut rcxb } else { &mut rcx };
                let res = match Pin::new(r).poll_read(cxr, &mut rb) {
                    Poll::Ready(Ok(())) => {
                        let f = rb.filled();
                        if f.is_empty() {
                            "eof".to_string()
                        } else {
                            format!("data:{}", hex_encode(f))
                        }
                    }
                    Poll::Ready(Err(e)) => format!("err:{}", e.to_string().replace(' ', "_")),
                    Poll::Pending => "pending".into(),
                };
                format!("{res} {}", s.show())
            }
            _ => "bad-op".into(),
        },
        ["dropr"] => match s.reader.take() {
            Some(r) => {
                drop(r);
                format!("ok {}", s.show())
            }
            None => "bad-op".into(),
        },
        ["error", m] => {
            s.rx.enqueue_error(m.to_string());
            format!("ok {}", s.show())
        }
        ["close"] => {
            s.rx.mark_vsock_closed();
            format!("ok {}", s.show())
        }
        _ => "bad-op".into(),
    }
}
