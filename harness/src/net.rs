//! `net` component (implementation-side oracle only, no model): several REAL sockets with their real
//! dispatchers and real connection tasks on one paused-clock runtime, joined by a scripted in-memory network
//! (loss, duplication, reordering under the script's control). Applications are scripted connect()/accept()
//! calls and stream reads/writes with per-stream tagged, position-coded payload.
use std::{
    collections::{BTreeMap, HashMap, VecDeque},
    future::Future,
    net::{Ipv4Addr, SocketAddr},
    num::NonZeroUsize,
    pin::Pin,
    sync::Arc,
    task::{Context, Poll, Waker},
    time::{Duration, Instant},
};

use librqbit_dualstack_sockets::PollSendToVectored;
use librqbit_utp::verif::{DispatcherDriver, UtpEnvironment};
use librqbit_utp::{SocketOpts, Transport, UtpSocket, UtpStream, UtpStreamReadHalf, UtpStreamWriteHalf};
use parking_lot::Mutex;
use tokio::io::ReadBuf;
use tokio_util::sync::CancellationToken;

use crate::util::hex_encode;

#[derive(Clone)]
pub struct NetEnv {
    base: Instant,
    start: tokio::time::Instant,
    rnd: Arc<Mutex<u64>>,
}

impl UtpEnvironment for NetEnv {
    fn now(&self) -> Instant {
        self.base + (tokio::time::Instant::now() - self.start)
    }
    fn copy(&self) -> Self {
        self.clone()
    }
    fn random_u16(&self) -> u16 {
        let mut g = self.rnd.lock();
        // xorshift64
        *g ^= *g << 13;
        *g ^= *g >> 7;
        *g ^= *g << 17;
        // small id space on purpose: clashes between peers are likely
        ((*g >> 20) % 64) as u16
    }
}

struct Dgram {
    from: u16,
    to: u16,
    bytes: Vec<u8>,
}

#[derive(Default)]
struct World {
    wire: Vec<Dgram>,
    inbox: HashMap<u16, VecDeque<(SocketAddr, Vec<u8>)>>,
    wakers: HashMap<u16, Waker>,
    sent_total: usize,
}

#[derive(Clone)]
pub struct NetTransport {
    port: u16,
    w: Arc<Mutex<World>>,
}

fn addr_of(port: u16) -> SocketAddr {
    (Ipv4Addr::LOCALHOST, port).into()
}

impl NetTransport {
    fn send(&self, buf: &[u8], target: SocketAddr) -> std::io::Result<usize> {
        let mut g = self.w.lock();
        g.sent_total += 1;
        g.wire.push(Dgram { from: self.port, to: target.port(), bytes: buf.to_vec() });
        Ok(buf.len())
    }
}

impl Transport for NetTransport {
    fn recv_from<'a>(
        &'a self,
        buf: &'a mut [u8],
    ) -> impl Future<Output = std::io::Result<(usize, SocketAddr)>> + Send + Sync + 'a {
        std::future::poll_fn(move |cx| {
            let mut g = self.w.lock();
            match g.inbox.entry(self.port).or_default().pop_front() {
                Some((a, d)) => {
                    buf[..d.len()].copy_from_slice(&d);
                    Poll::Ready(Ok((d.len(), a)))
                }
                None => {
                    g.wakers.insert(self.port, cx.waker().clone());
                    Poll::Pending
                }
            }
        })
    }
    async fn send_to<'a>(&'a self, buf: &'a [u8], target: SocketAddr) -> std::io::Result<usize> {
        self.send(buf, target)
    }
    fn poll_send_to(&self, _cx: &mut Context<'_>, buf: &[u8], target: SocketAddr) -> Poll<std::io::Result<usize>> {
        Poll::Ready(self.send(buf, target))
    }
    fn bind_addr(&self) -> SocketAddr {
        addr_of(self.port)
    }
}

impl PollSendToVectored for NetTransport {
    fn poll_send_to_vectored(
        &self,
        _cx: &mut Context<'_>,
        bufs: &[std::io::IoSlice<'_>],
        target: SocketAddr,
    ) -> Poll<std::io::Result<usize>> {
        let mut buf = Vec::new();
        bufs.iter().for_each(|b| buf.extend_from_slice(b.as_ref()));
        Poll::Ready(self.send(&buf, target))
    }
}

type Slot = Arc<Mutex<Option<librqbit_utp::Result<UtpStream>>>>;

struct Call {
    slot: Slot,
    task: Option<tokio::task::JoinHandle<()>>,
    reader: Option<UtpStreamReadHalf>,
    writer: Option<UtpStreamWriteHalf>,
    /// every other call keeps its `UtpStream` whole and goes through its own AsyncRead/AsyncWrite impl (stream.rs)
    whole: Option<UtpStream>,
    taken: bool,
    wpos: usize,
    tag: usize,
}

struct Sock {
    socket: Arc<UtpSocket<NetTransport, NetEnv>>,
    fp: Arc<Mutex<String>>,
    token: CancellationToken,
}

pub struct NetInner {
    rt: tokio::runtime::Runtime,
    world: Arc<Mutex<World>>,
    socks: BTreeMap<u16, Sock>,
    calls: BTreeMap<String, Call>,
    prng: u64,
}

pub struct NetSt {
    pub inner: Option<NetInner>,
}

impl NetSt {
    pub fn new() -> Self {
        NetSt { inner: None }
    }
}

fn kv<'a>(args: &'a [&'a str]) -> HashMap<&'a str, &'a str> {
    args.iter().filter_map(|a| a.split_once('=')).collect()
}

fn settle(rt: &tokio::runtime::Runtime, rounds: usize) {
    rt.block_on(async {
        for _ in 0..rounds {
            tokio::task::yield_now().await;
        }
    });
}

fn summary(d: &Dgram) -> String {
    let ty = d.bytes.first().map(|b| b >> 4).unwrap_or(15);
    let cid = if d.bytes.len() >= 4 { u16::from_be_bytes([d.bytes[2], d.bytes[3]]) } else { 0 };
    format!("{}>{}:t{}:c{}:l{}", d.from, d.to, ty, cid, d.bytes.len())
}

fn next(p: &mut u64) -> u64 {
    *p ^= *p << 13;
    *p ^= *p >> 7;
    *p ^= *p << 17;
    *p
}

fn call_state(c: &mut Call) -> String {
    if !c.taken {
        let mut g = c.slot.lock();
        match g.take() {
            None => return "pending".into(),
            Some(Ok(s)) => {
                c.taken = true;
                let remote = s.remote_addr().port();
                if c.tag % 2 == 1 {
                    c.whole = Some(s);
                } else {
                    let (r, w) = s.split();
                    c.reader = Some(r);
                    c.writer = Some(w);
                }
                return format!("ok:remote={remote}");
            }
            Some(Err(e)) => {
                c.taken = true;
                return format!("err:{}", e.to_string().replace(' ', "_"));
            }
        }
    }
    if c.reader.is_some() || c.writer.is_some() { "open".into() } else { "closed".into() }
}

pub fn step_net(st: &mut NetSt, args: &[&str]) -> String {
    if let ["new", rest @ ..] = args {
        if let Some(old) = st.inner.take() {
            let NetInner { rt, socks, calls, .. } = old;
            {
                let _g = rt.enter();
                drop(calls);
                for (_, s) in socks.iter() {
                    s.token.cancel();
                }
                drop(socks);
            }
            drop(rt);
        }
        let k = kv(rest);
        let g = |n: &str, d: u64| k.get(n).and_then(|v| v.parse::<u64>().ok()).unwrap_or(d);
        let rt = tokio::runtime::Builder::new_current_thread().enable_time().start_paused(true).build().unwrap();
        let world = Arc::new(Mutex::new(World::default()));
        let mut socks = BTreeMap::new();
        let seed = g("seed", 1);
        {
            let _g = rt.enter();
            let start = tokio::time::Instant::now();
            for port in 1..=(g("socks", 2) as u16) {
                let env = NetEnv { base: start.into_std(), start, rnd: Arc::new(Mutex::new(seed.wrapping_mul(0x9E3779B97F4A7C15).wrapping_add(port as u64) | 1)) };
                let token = CancellationToken::new();
                let opts = SocketOpts {
                    // no path-MTU probing here: the known finding D2 (probe re-split) is tracked by the vs component
                    link_mtu: NonZeroUsize::new(g("mtu", 576) as usize),
                    max_live_vsocks: NonZeroUsize::new(g("max", 128) as usize),
                    vsock_rx_bufsize_bytes: NonZeroUsize::new(g("rx", 1 << 16) as usize),
                    vsock_tx_bufsize_bytes_initial: NonZeroUsize::new(g("tx0", 8192) as usize),
                    remote_inactivity_timeout: Some(Duration::from_millis(g("inact_ms", 10_000))),
                    max_retransmissions: NonZeroUsize::new(g("retx", 5) as usize),
                    cancellation_token: token.clone(),
                    ..Default::default()
                };
                let t = NetTransport { port, w: world.clone() };
                let (socket, mut driver) = match DispatcherDriver::new(t, env, opts) {
                    Ok(x) => x,
                    Err(e) => return format!("err:{e}"),
                };
                let fp = Arc::new(Mutex::new(driver.fingerprint()));
                let fp2 = fp.clone();
                let tok = token.clone();
                rt.spawn(async move {
                    loop {
                        *fp2.lock() = driver.fingerprint();
                        tokio::select! {
                            _ = tok.cancelled() => break,
                            r = driver.run_once() => { if r.is_err() { break } }
                        }
                    }
                    *fp2.lock() = "dispatcher-ended".into();
                });
                socks.insert(port, Sock { socket, fp, token });
            }
        }
        st.inner = Some(NetInner { rt, world, socks, calls: BTreeMap::new(), prng: seed | 1 });
        return "ok".into();
    }
    let Some(s) = st.inner.as_mut() else {
        return "bad-op".into();
    };
    let p16 = |x: &str| x.parse::<u16>().ok();
    match args {
        ["connect", id, from, to] => match (p16(from), p16(to)) {
            (Some(from), Some(to)) if s.socks.contains_key(&from) && !s.calls.contains_key(&format!("c{id}")) => {
                let sock = s.socks[&from].socket.clone();
                let slot: Slot = Arc::new(Mutex::new(None));
                let slot2 = slot.clone();
                let task = s.rt.spawn(async move {
                    let r = sock.connect(addr_of(to)).await;
                    *slot2.lock() = Some(r);
                });
                let tag = id.parse::<usize>().unwrap_or(0) % 100;
                s.calls.insert(format!("c{id}"), Call { slot, task: Some(task), reader: None, writer: None, whole: None, taken: false, wpos: 0, tag });
                settle(&s.rt, 20);
                "ok".into()
            }
            _ => "bad-op".into(),
        },
        ["accept", id, on] => match p16(on) {
            Some(on) if s.socks.contains_key(&on) && !s.calls.contains_key(&format!("a{id}")) => {
                let sock = s.socks[&on].socket.clone();
                let slot: Slot = Arc::new(Mutex::new(None));
                let slot2 = slot.clone();
                let task = s.rt.spawn(async move {
                    let r = sock.accept().await;
                    *slot2.lock() = Some(r);
                });
                let tag = 100 + id.parse::<usize>().unwrap_or(0) % 100;
                s.calls.insert(format!("a{id}"), Call { slot, task: Some(task), reader: None, writer: None, whole: None, taken: false, wpos: 0, tag });
                settle(&s.rt, 20);
                "ok".into()
            }
            _ => "bad-op".into(),
        },
        ["abort", call] => match s.calls.get_mut(*call) {
            Some(c) => {
                let _g = s.rt.enter();
                if let Some(t) = c.task.take() {
                    t.abort();
                }
                c.taken = true;
                c.reader = None;
                c.writer = None;
                *c.slot.lock() = None;
                drop(_g);
                settle(&s.rt, 20);
                "ok".into()
            }
            None => "bad-op".into(),
        },
        ["state", call] => match s.calls.get_mut(*call) {
            Some(c) => {
                let _g = s.rt.enter();
                call_state(c)
            }
            None => "bad-op".into(),
        },
        ["write", call, n] => match (s.calls.get_mut(*call), n.parse::<usize>()) {
            (Some(c), Ok(n)) if n <= 1 << 20 => {
                let _g = s.rt.enter();
                let _ = call_state(c);
                let wr: Option<&mut (dyn tokio::io::AsyncWrite + Unpin)> = match c.whole.as_mut() {
                    Some(ws) => Some(ws),
                    None => c.writer.as_mut().map(|w| w as &mut (dyn tokio::io::AsyncWrite + Unpin)),
                };
                let r = match wr {
                    None => "nostream".to_string(),
                    Some(w) => {
                        let b: Vec<u8> = (0..n).map(|j| (((c.wpos + j) * 7 + 3 + c.tag * 37) % 251) as u8).collect();
                        let mut cx = Context::from_waker(Waker::noop());
                        match Pin::new(w).poll_write(&mut cx, &b) {
                            Poll::Ready(Ok(k)) => {
                                c.wpos += k;
                                format!("ready:{k}")
                            }
                            Poll::Ready(Err(e)) => format!("err:{}", e.to_string().replace(' ', "_")),
                            Poll::Pending => "pending".into(),
                        }
                    }
                };
                drop(_g);
                settle(&s.rt, 20);
                r
            }
            _ => "bad-op".into(),
        },
        ["read", call, n] => match (s.calls.get_mut(*call), n.parse::<usize>()) {
            (Some(c), Ok(n)) if n <= 1 << 20 => {
                let _g = s.rt.enter();
                let _ = call_state(c);
                let rd: Option<&mut (dyn tokio::io::AsyncRead + Unpin)> = match c.whole.as_mut() {
                    Some(ws) => Some(ws),
                    None => c.reader.as_mut().map(|r| r as &mut (dyn tokio::io::AsyncRead + Unpin)),
                };
                let r = match rd {
                    None => "nostream".to_string(),
                    Some(r) => {
                        let mut buf = vec![0u8; n];
                        let mut rb = ReadBuf::new(&mut buf);
                        let mut cx = Context::from_waker(Waker::noop());
                        match Pin::new(r).poll_read(&mut cx, &mut rb) {
                            Poll::Ready(Ok(())) => {
                                let f = rb.filled();
                                if f.is_empty() { "eof".to_string() } else { format!("data:{}", hex_encode(f)) }
                            }
                            Poll::Ready(Err(e)) => format!("err:{}", e.to_string().replace(' ', "_")),
                            Poll::Pending => "pending".into(),
                        }
                    }
                };
                drop(_g);
                settle(&s.rt, 20);
                r
            }
            _ => "bad-op".into(),
        },
        ["shutdown", call] | ["flush", call] => match s.calls.get_mut(*call) {
            Some(c) => {
                let _g = s.rt.enter();
                let _ = call_state(c);
                let wr: Option<&mut (dyn tokio::io::AsyncWrite + Unpin)> = match c.whole.as_mut() {
                    Some(ws) => Some(ws),
                    None => c.writer.as_mut().map(|w| w as &mut (dyn tokio::io::AsyncWrite + Unpin)),
                };
                let r = match wr {
                    None => "nostream".to_string(),
                    Some(w) => {
                        let mut cx = Context::from_waker(Waker::noop());
                        let p = if args[0] == "flush" { Pin::new(w).poll_flush(&mut cx) } else { Pin::new(w).poll_shutdown(&mut cx) };
                        match p {
                            Poll::Ready(Ok(())) => "ok".to_string(),
                            Poll::Ready(Err(e)) => format!("err:{}", e.to_string().replace(' ', "_")),
                            Poll::Pending => "pending".into(),
                        }
                    }
                };
                drop(_g);
                settle(&s.rt, 20);
                r
            }
            None => "bad-op".into(),
        },
        ["close", call] | ["closewr", call] => match s.calls.get_mut(*call) {
            Some(c) => {
                let _g = s.rt.enter();
                let _ = call_state(c);
                if args[0] == "closewr" {
                    // the application lets go of the write half FIRST, the read half a little later
                    if let Some(ws) = c.whole.take() {
                        let (r, w) = ws.split();
                        c.reader = Some(r);
                        c.writer = Some(w);
                    }
                    c.writer = None;
                    drop(_g);
                    settle(&s.rt, 20);
                    let _g = s.rt.enter();
                    c.reader = None;
                    drop(_g);
                } else {
                    c.reader = None;
                    c.writer = None;
                    c.whole = None;
                    drop(_g);
                }
                settle(&s.rt, 20);
                "ok".into()
            }
            None => "bad-op".into(),
        },
        ["pump", k, rest @ ..] => {
            let kvs = kv(rest);
            let g = |n: &str, d: u64| kvs.get(n).and_then(|v| v.parse::<u64>().ok()).unwrap_or(d);
            let (loss, dup, reorder) = (g("loss", 0), g("dup", 0), g("reorder", 0));
            let k = k.parse::<usize>().unwrap_or(0);
            let (mut delivered, mut dropped, mut dups) = (0, 0, 0);
            let mut log = Vec::new();
            for _ in 0..k {
                let d = {
                    let mut w = s.world.lock();
                    if w.wire.is_empty() {
                        break;
                    }
                    let idx = if reorder > 0 && next(&mut s.prng) % 100 < reorder { (next(&mut s.prng) as usize) % w.wire.len() } else { 0 };
                    w.wire.remove(idx)
                };
                if next(&mut s.prng) % 100 < loss {
                    dropped += 1;
                    log.push(format!("x{}", summary(&d)));
                    continue;
                }
                let n = if next(&mut s.prng) % 100 < dup { 2 } else { 1 };
                if n == 2 {
                    dups += 1;
                }
                log.push(summary(&d));
                {
                    let mut w = s.world.lock();
                    for _ in 0..n {
                        w.inbox.entry(d.to).or_default().push_back((addr_of(d.from), d.bytes.clone()));
                    }
                    if let Some(wk) = w.wakers.remove(&d.to) {
                        wk.wake();
                    }
                }
                delivered += 1;
                settle(&s.rt, 12);
            }
            let left = s.world.lock().wire.len();
            format!("delivered={delivered} dropped={dropped} dup={dups} left={left} d=[{}]", log.join(","))
        }
        // put a crafted datagram on the wire (a peer that is not one of our sockets' stacks, or a late duplicate)
        ["raw", from, to, hx] => match (p16(from), p16(to), crate::util::hex_decode(hx)) {
            (Some(from), Some(to), Some(bytes)) => {
                s.world.lock().wire.push(Dgram { from, to, bytes });
                "ok".into()
            }
            _ => "bad-op".into(),
        },
        // move the first k datagrams from the wire into their sockets' receive queues WITHOUT waking anybody:
        // they are found together by whatever wakes the dispatcher next
        ["stage", k, rest @ ..] => {
            let k = k.parse::<usize>().unwrap_or(0);
            let only_to = kv(rest).get("to").and_then(|v| v.parse::<u16>().ok());
            let mut w = s.world.lock();
            let mut log = Vec::new();
            for _ in 0..k {
                let Some(idx) = w.wire.iter().position(|d| only_to.map_or(true, |p| d.to == p)) else {
                    break;
                };
                let d = w.wire.remove(idx);
                log.push(summary(&d));
                w.inbox.entry(d.to).or_default().push_back((addr_of(d.from), d.bytes.clone()));
            }
            format!("staged=[{}] left={}", log.join(","), w.wire.len())
        }
        ["adv", ns] => match ns.parse::<u64>() {
            Ok(ns) => {
                s.rt.block_on(async {
                    tokio::time::advance(Duration::from_nanos(ns)).await;
                    for _ in 0..30 {
                        tokio::task::yield_now().await;
                    }
                });
                let left = s.world.lock().wire.len();
                format!("ok left={left}")
            }
            Err(_) => "bad-op".into(),
        },
        ["cancel", port] => match p16(port).and_then(|p| s.socks.get(&p)) {
            Some(so) => {
                so.token.cancel();
                settle(&s.rt, 40);
                "ok".into()
            }
            None => "bad-op".into(),
        },
        ["tables"] => {
            settle(&s.rt, 10);
            let v: Vec<String> = s.socks.iter().map(|(p, so)| format!("{p}:{{{}}}", so.fp.lock().clone())).collect();
            let w = s.world.lock();
            format!("{} wire={} sent_total={}", v.join(" "), w.wire.len(), w.sent_total)
        }
        _ => "bad-op".into(),
    }
}
