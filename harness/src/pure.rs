use std::time::Duration;

use librqbit_utp::verif::{RttEstimator, SeqNr, seq_nr_offset};

pub fn step_seqnr(args: &[&str]) -> String {
    let p = |s: &str| s.parse::<u16>().ok();
    match args {
        ["so", a, b, t] => match (p(a), p(b), p(t)) {
            (Some(a), Some(b), Some(t)) => seq_nr_offset(a, b, t).to_string(),
            _ => "bad-op".into(),
        },
        ["sub", a, b] => match (p(a), p(b)) {
            (Some(a), Some(b)) => (SeqNr(a) - SeqNr(b)).to_string(),
            _ => "bad-op".into(),
        },
        ["cmp", a, b] => match (p(a), p(b)) {
            (Some(a), Some(b)) => match SeqNr(a).cmp(&SeqNr(b)) {
                std::cmp::Ordering::Less => "-1".into(),
                std::cmp::Ordering::Equal => "0".into(),
                std::cmp::Ordering::Greater => "1".into(),
            },
            _ => "bad-op".into(),
        },
        _ => "bad-op".into(),
    }
}

fn show_rtte(r: &RttEstimator) -> String {
    format!(
        "rto={} rtt={}",
        r.retransmission_timeout().as_nanos(),
        r.roundtrip_time().as_nanos()
    )
}

pub fn step_rtte(r: &mut RttEstimator, args: &[&str]) -> String {
    match args {
        ["new"] => {
            *r = RttEstimator::default();
            show_rtte(r)
        }
        ["sample", ns] => match ns.parse::<u64>() {
            Ok(ns) => {
                r.sample(Duration::from_nanos(ns));
                show_rtte(r)
            }
            Err(_) => "bad-op".into(),
        },
        ["timeout"] => {
            r.on_rto_timeout();
            show_rtte(r)
        }
        _ => "bad-op".into(),
    }
}
