//! `cubic` component: drives the real `congestion::cubic::Cubic` through the
//! `CongestionController` trait and prints its state after every op.
use std::time::{Duration, Instant};

use librqbit_utp::verif::{CongestionController, Cubic, RttEstimator};

pub struct CubicSt {
    origin: Instant,
    c: Option<Cubic>,
}

impl CubicSt {
    pub fn new() -> Self {
        Self {
            origin: Instant::now(),
            c: None,
        }
    }
}

fn show(origin: Instant, c: &Cubic) -> String {
    let (f, mss, rwndb, lce) = c.verif_fields();
    let names = ["cwnd", "ssthresh", "k", "wmax", "wmaxlast", "rwnd"];
    let mut s = format!("w={} ss={}", c.window(), c.sshthresh());
    for (n, v) in names.iter().zip(f.iter()) {
        s.push_str(&format!(" {}={:016x}", n, v.to_bits()));
    }
    s.push_str(&format!(
        " mss={} rwndb={} lce={}",
        mss,
        rwndb,
        lce.saturating_duration_since(origin).as_nanos()
    ));
    s
}

pub fn step_cubic(st: &mut CubicSt, args: &[&str]) -> String {
    // a trailing `pre=...` token (the model's resynchronisation data) is not for us
    let args: Vec<&str> = args
        .iter()
        .copied()
        .filter(|a| !a.starts_with("pre="))
        .collect();
    let p = |s: &str| s.parse::<u64>().ok();
    let origin = st.origin;
    let at = |ns: u64| origin + Duration::from_nanos(ns);
    if let ["new", now, mss] = args[..] {
        return match (p(now), p(mss)) {
            (Some(now), Some(mss)) => {
                let c = Cubic::new(at(now), mss as usize);
                let s = show(origin, &c);
                st.c = Some(c);
                s
            }
            _ => "bad-op".into(),
        };
    }
    let Some(c) = st.c.as_mut() else {
        return "bad-op".into();
    };
    match args[..] {
        ["ack", now, len, rtt] => match (p(now), p(len)) {
            (Some(now), Some(len)) => {
                let mut r = RttEstimator::default();
                if rtt != "-" {
                    match p(rtt) {
                        Some(ns) => r.sample(Duration::from_nanos(ns)),
                        None => return "bad-op".into(),
                    }
                }
                c.on_ack(at(now), len as usize, &r);
            }
            _ => return "bad-op".into(),
        },
        ["rto", now] => match p(now) {
            Some(now) => c.on_retransmission_timeout(at(now)),
            None => return "bad-op".into(),
        },
        ["enter", now] => match p(now) {
            Some(now) => c.on_enter_recovery(at(now)),
            None => return "bad-op".into(),
        },
        ["recovered", cw, ss] => match (p(cw), p(ss)) {
            (Some(cw), Some(ss)) => c.on_recovered(cw as usize, ss as usize),
            _ => return "bad-op".into(),
        },
        ["setmss", m] => match p(m) {
            Some(m) => c.set_mss(m as usize),
            None => return "bad-op".into(),
        },
        ["setrwnd", w] => match p(w) {
            Some(w) => c.set_remote_window(w as usize),
            None => return "bad-op".into(),
        },
        ["show"] => {}
        _ => return "bad-op".into(),
    }
    show(origin, c)
}
