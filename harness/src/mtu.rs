use librqbit_utp::mtu::{SegmentSizes, SegmentSizesConfig};

use crate::util::b01;

fn show(s: &SegmentSizes) -> String {
    format!("mss={} max={} probing={}", s.mss(), s.max_ss(), b01(s.is_probing()))
}

pub fn step_mtu(s: &mut SegmentSizes, args: &[&str]) -> String {
    match args {
        ["new", v4, mtu, cd] => match (v4.parse::<u8>(), mtu.parse::<u16>(), cd.parse::<u16>()) {
            (Ok(v), Ok(m), Ok(c)) => {
                *s = SegmentSizes::new(SegmentSizesConfig {
                    is_ipv4: v == 1,
                    link_mtu: m,
                    probe_expiry_cooldown_packets: c,
                });
                show(s)
            }
            _ => "bad-op".into(),
        },
        ["delivered", p] => match p.parse::<usize>() {
            Ok(p) => {
                s.on_payload_delivered(p);
                show(s)
            }
            _ => "bad-op".into(),
        },
        ["next"] => {
            let n = s.next_segment_size();
            format!("ss={} {}", n, show(s))
        }
        ["failed", p] => match p.parse::<usize>() {
            Ok(p) => {
                s.on_probe_failed(p);
                show(s)
            }
            _ => "bad-op".into(),
        },
        ["path", p] => match p.parse::<usize>() {
            Ok(p) => {
                let n = s.next_segment_size();
                if n > s.mss() {
                    if n as usize <= p {
                        s.on_payload_delivered(n as usize);
                    } else {
                        s.on_probe_failed(n as usize);
                    }
                }
                format!("ss={} {}", n, show(s))
            }
            _ => "bad-op".into(),
        },
        ["disarm"] => {
            s.disarm_cooldown();
            show(s)
        }
        _ => "bad-op".into(),
    }
}
